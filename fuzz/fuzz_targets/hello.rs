#![no_main]
//! C14: arbitrary bytes as the server hello. Oracle inside the target: session establishment
//! returns (a session or an error); a panic / overflow aborts the fuzzer, non-termination is
//! caught by libFuzzer's -timeout.
use libfuzzer_sys::fuzz_target;
use vcheck::props::c14::{feed_hello_raw, Fed};

fuzz_target!(|data: &[u8]| {
    match feed_hello_raw(data) {
        Fed::Returned { .. } => {}
        other => panic!("C14 violation: {other:?}"),
    }
});
