#![no_main]
//! C14: arbitrary bytes as the reply to one of every operation (first byte selects it) while a
//! second request is outstanding; its valid reply, arriving afterwards, must still be delivered.
use libfuzzer_sys::fuzz_target;
use vcheck::{ops::ReqSpec, props::c14::{feed_reply_raw, Fed}};

fuzz_target!(|data: &[u8]| {
    let Some((op, bytes)) = data.split_first() else { return };
    let ops = ReqSpec::canonical();
    let spec = &ops[*op as usize % ops.len()];
    match feed_reply_raw(spec, bytes) {
        Fed::Returned { .. } => {}
        other => panic!("C14 violation: {other:?}"),
    }
});
