#![no_main]
//! C14: arbitrary bytes as the reply to one of every operation (first byte selects it) while a
//! second request is outstanding; its valid reply, arriving afterwards, must still be delivered.
use libfuzzer_sys::fuzz_target;
use vcheck::{ops::ReqSpec, props::c14::{feed_reply_raw_ordered, Fed}};

fuzz_target!(|data: &[u8]| {
    let Some((op, bytes)) = data.split_first() else { return };
    let ops = ReqSpec::canonical();
    // bit 7: the second request's valid reply arrives before the bytes (and is parked)
    let spec = &ops[(*op & 0x7f) as usize % ops.len()];
    match feed_reply_raw_ordered(spec, bytes, *op & 0x80 != 0) {
        Fed::Returned { .. } => {}
        other => panic!("C14 violation: {other:?}"),
    }
});
