#![no_main]
//! C14: arbitrary bytes as the reply to the agent's get-config requests (first byte selects the
//! candidate or the installed-policy reader).
use libfuzzer_sys::fuzz_target;
use vcheck::props::agent_parts::feed_agent_reader_raw;

fuzz_target!(|data: &[u8]| {
    let Some((which, bytes)) = data.split_first() else { return };
    if let Err(e) = feed_agent_reader_raw(which & 1 == 0, bytes) {
        panic!("C14 violation: {e}");
    }
});
