//! In-memory NETCONF transport (implements the library's public `Transport` traits) and a tiny
//! deterministic single-future executor.
//!
//! `recv()` hands back one already framed message, exactly like the real transports do. The
//! server side is either a queue the harness fills, or a synchronous handler called on every
//! `send()` (the fake Junos). Cancel-safe by construction: a message is only removed from the
//! inbox in the poll that returns it.

use std::{
    collections::VecDeque,
    fmt,
    future::Future,
    pin::Pin,
    sync::{
        atomic::{AtomicBool, Ordering},
        Arc, Mutex,
    },
    task::{Context, Poll, Wake, Waker},
};

use async_trait::async_trait;
use bytes::Bytes;
use netconf::{
    transport::{RecvHandle, SendHandle, Transport},
    Error,
};

pub type Handler = Box<dyn FnMut(&[u8]) -> HandlerResult + Send>;

#[derive(Debug, Default)]
pub struct HandlerResult {
    /// messages to deliver to the client (already framed, delimiter included)
    pub replies: Vec<Vec<u8>>,
    /// close the connection after delivering `replies`
    pub close: bool,
}

thread_local! {
    /// id of the task currently being polled by the schedule-owning executor (engine D)
    pub static CURRENT_TASK: std::cell::Cell<usize> = const { std::cell::Cell::new(usize::MAX) };
}

#[derive(Default)]
pub struct WireState {
    pub inbox: VecDeque<Bytes>,
    pub sent: Vec<Bytes>,
    pub handler: Option<Handler>,
    pub closed: bool,
    pub send_fails: bool,
    pub recv_waker: Option<Waker>,
    pub send_gate_closed: bool,
    /// `Some(k)`: only k more sends may complete, further ones stay pending (engine D)
    pub send_credits: Option<usize>,
    pub send_waker: Option<Waker>,
    /// (task id, message) for every message handed to the client
    pub recv_log: Vec<(usize, Bytes)>,
    /// for every entry of `recv_log`: how many client messages had been sent at that moment
    pub recv_sent: Vec<usize>,
    /// number of recv() polls that found nothing
    pub empty_polls: u64,
    /// number of send() calls that have completed (successfully or not)
    pub send_attempts: usize,
    /// send ordinal (0 = the client hello) -> that send reports an I/O error; `true`: after the
    /// bytes were handed to the peer (a flush that fails late), `false`: nothing was delivered
    pub send_faults: std::collections::BTreeMap<usize, bool>,
    /// a send hands its bytes to the peer at once but completes only when the harness lets it
    /// (`finish_send`): the time a flush takes, during which the peer can already answer
    pub send_lingers: bool,
    pub linger_credits: usize,
    pub linger_waker: Option<Waker>,
}

#[derive(Clone, Default)]
pub struct Wire {
    pub state: Arc<Mutex<WireState>>,
}

impl fmt::Debug for Wire {
    fn fmt(&self, f: &mut fmt::Formatter<'_>) -> fmt::Result {
        f.write_str("Wire")
    }
}

impl Wire {
    pub fn new() -> Self {
        Self::default()
    }
    pub fn with_handler(handler: Handler) -> Self {
        let w = Self::default();
        w.state.lock().unwrap().handler = Some(handler);
        w
    }
    /// queue a message for the client (framed) and wake a waiting reader
    pub fn push(&self, msg: impl Into<Bytes>) {
        let waker = {
            let mut st = self.state.lock().unwrap();
            st.inbox.push_back(msg.into());
            st.recv_waker.take()
        };
        if let Some(w) = waker {
            w.wake();
        }
    }
    pub fn close(&self) {
        let waker = {
            let mut st = self.state.lock().unwrap();
            st.closed = true;
            st.recv_waker.take()
        };
        if let Some(w) = waker {
            w.wake();
        }
    }
    pub fn set_send_gate(&self, closed: bool) {
        let waker = {
            let mut st = self.state.lock().unwrap();
            st.send_gate_closed = closed;
            if closed {
                None
            } else {
                st.send_waker.take()
            }
        };
        if let Some(w) = waker {
            w.wake();
        }
    }
    /// `None` = unlimited; `Some(k)` = k more sends may complete
    pub fn set_send_credits(&self, credits: Option<usize>) {
        let waker = {
            let mut st = self.state.lock().unwrap();
            st.send_credits = credits;
            if credits == Some(0) {
                None
            } else {
                st.send_waker.take()
            }
        };
        if let Some(w) = waker {
            w.wake();
        }
    }
    /// a send has delivered its bytes and waits to be let through
    pub fn send_lingering(&self) -> bool {
        self.state.lock().unwrap().linger_waker.is_some()
    }
    /// let one delivered send complete
    pub fn finish_send(&self) {
        let waker = {
            let mut st = self.state.lock().unwrap();
            st.linger_credits += 1;
            st.linger_waker.take()
        };
        if let Some(w) = waker {
            w.wake();
        }
    }
    pub fn set_send_lingers(&self, on: bool) {
        let waker = {
            let mut st = self.state.lock().unwrap();
            st.send_lingers = on;
            if on { None } else { st.linger_waker.take() }
        };
        if let Some(w) = waker {
            w.wake();
        }
    }
    pub fn send_waiting(&self) -> bool {
        self.state.lock().unwrap().send_waker.is_some()
    }
    pub fn sent(&self) -> Vec<Bytes> {
        self.state.lock().unwrap().sent.clone()
    }
    pub fn sent_count(&self) -> usize {
        self.state.lock().unwrap().sent.len()
    }
    pub fn transport(&self) -> MemTransport {
        MemTransport { wire: self.clone() }
    }
}

#[derive(Debug)]
pub struct MemTransport {
    wire: Wire,
}

impl Transport for MemTransport {
    type SendHandle = MemSender;
    type RecvHandle = MemReceiver;
    fn split(self) -> (Self::SendHandle, Self::RecvHandle) {
        (
            MemSender {
                wire: self.wire.clone(),
            },
            MemReceiver { wire: self.wire },
        )
    }
}

#[derive(Debug)]
pub struct MemSender {
    wire: Wire,
}

#[derive(Debug)]
pub struct MemReceiver {
    wire: Wire,
}

fn io_err(kind: std::io::ErrorKind, msg: &str) -> Error {
    Error::from(std::io::Error::new(kind, msg.to_string()))
}

#[async_trait]
impl SendHandle for MemSender {
    async fn send(&mut self, data: Bytes) -> Result<(), Error> {
        let wire = self.wire.clone();
        let mut data = Some(data);
        let mut delivered = false;
        std::future::poll_fn(move |cx| {
            let waker;
            {
                let mut st = wire.state.lock().unwrap();
                if delivered {
                    // the bytes are with the peer; the call returns when the flush "completes"
                    if !st.send_lingers {
                        return Poll::Ready(Ok(()));
                    }
                    if st.linger_credits > 0 {
                        st.linger_credits -= 1;
                        return Poll::Ready(Ok(()));
                    }
                    st.linger_waker = Some(cx.waker().clone());
                    return Poll::Pending;
                }
                if st.send_gate_closed || st.send_credits == Some(0) {
                    st.send_waker = Some(cx.waker().clone());
                    return Poll::Pending;
                }
                if let Some(k) = st.send_credits.as_mut() {
                    *k -= 1;
                }
                let ordinal = st.send_attempts;
                st.send_attempts += 1;
                if st.send_fails || st.closed {
                    return Poll::Ready(Err(io_err(
                        std::io::ErrorKind::BrokenPipe,
                        "peer closed the connection",
                    )));
                }
                match st.send_faults.get(&ordinal).copied() {
                    Some(false) => {
                        return Poll::Ready(Err(io_err(
                            std::io::ErrorKind::TimedOut,
                            "injected: write failed",
                        )))
                    }
                    Some(true) => {
                        let d = data.take().expect("send polled after completion");
                        st.sent.push(d);
                        return Poll::Ready(Err(io_err(
                            std::io::ErrorKind::TimedOut,
                            "injected: flush failed after the bytes were written",
                        )));
                    }
                    None => {}
                }
                let d = data.take().expect("send polled after completion");
                st.sent.push(d.clone());
                if let Some(mut handler) = st.handler.take() {
                    let res = handler(&d);
                    st.handler = Some(handler);
                    for r in res.replies {
                        st.inbox.push_back(Bytes::from(r));
                    }
                    if res.close {
                        st.closed = true;
                    }
                }
                waker = st.recv_waker.take();
                delivered = true;
                // (the client hello is never held back)
                if st.send_lingers && st.send_attempts > 1 {
                    if st.linger_credits > 0 {
                        st.linger_credits -= 1;
                    } else {
                        st.linger_waker = Some(cx.waker().clone());
                        drop(st);
                        if let Some(w) = waker {
                            w.wake();
                        }
                        return Poll::Pending;
                    }
                }
            }
            if let Some(w) = waker {
                w.wake();
            }
            Poll::Ready(Ok(()))
        })
        .await
    }
}

#[async_trait]
impl RecvHandle for MemReceiver {
    async fn recv(&mut self) -> Result<Bytes, Error> {
        let wire = self.wire.clone();
        std::future::poll_fn(move |cx| {
            let mut st = wire.state.lock().unwrap();
            if let Some(m) = st.inbox.pop_front() {
                let task = CURRENT_TASK.with(std::cell::Cell::get);
                st.recv_log.push((task, m.clone()));
                let sent_now = st.sent.len();
                st.recv_sent.push(sent_now);
                return Poll::Ready(Ok(m));
            }
            if st.closed {
                return Poll::Ready(Err(io_err(
                    std::io::ErrorKind::UnexpectedEof,
                    "peer closed the connection",
                )));
            }
            st.empty_polls += 1;
            st.recv_waker = Some(cx.waker().clone());
            Poll::Pending
        })
        .await
    }
}

struct Flag(AtomicBool);

impl Wake for Flag {
    fn wake(self: Arc<Self>) {
        self.0.store(true, Ordering::SeqCst);
    }
    fn wake_by_ref(self: &Arc<Self>) {
        self.0.store(true, Ordering::SeqCst);
    }
}

/// Poll `fut` until it completes or until it is pending with no wake-up outstanding
/// (= it would wait forever on this single-task world). `None` means "stuck".
pub fn drive<F: Future>(fut: F) -> Option<F::Output> {
    let mut fut = std::pin::pin!(fut);
    drive_pinned(fut.as_mut())
}

pub fn drive_pinned<F: Future + ?Sized>(mut fut: Pin<&mut F>) -> Option<F::Output> {
    let flag = Arc::new(Flag(AtomicBool::new(false)));
    let waker = Waker::from(flag.clone());
    let mut cx = Context::from_waker(&waker);
    let mut polls = 0u32;
    loop {
        match fut.as_mut().poll(&mut cx) {
            Poll::Ready(v) => return Some(v),
            Poll::Pending => {
                polls += 1;
                if flag.0.swap(false, Ordering::SeqCst) && polls < 100_000 {
                    continue;
                }
                return None;
            }
        }
    }
}

/// A factory of in-memory transports for the agent hooks.
#[derive(Clone)]
pub struct MemFactory {
    pub make: Arc<dyn Fn() -> anyhow::Result<MemTransport> + Send + Sync>,
}

impl fmt::Debug for MemFactory {
    fn fmt(&self, f: &mut fmt::Formatter<'_>) -> fmt::Result {
        f.write_str("MemFactory")
    }
}

impl MemFactory {
    pub fn new<F>(f: F) -> Self
    where
        F: Fn() -> anyhow::Result<MemTransport> + Send + Sync + 'static,
    {
        Self { make: Arc::new(f) }
    }
}

impl bgpfu_junos_agent::verif::TransportFactory for MemFactory {
    type Transport = MemTransport;
    async fn make(&self) -> anyhow::Result<MemTransport> {
        (self.make)()
    }
}
