//! Reference model of the part of a Junos configuration database the agent writes:
//! `policy-options / policy-statement`, with `load-configuration action="merge"` semantics, a
//! renderer to the `<get-config>` shape of the repository's own fixtures, and a first-match policy
//! evaluator used to decide what a policy would accept.

use std::collections::BTreeSet;

use serde::{Deserialize, Serialize};

use crate::{
    xmlgen::{Ns, X},
    xmlstrict::Elem,
};

/// (address, "/lo-/hi")
pub type Entry = (String, String);

#[derive(Debug, Clone, PartialEq, Eq, Serialize, Deserialize, Default)]
pub struct Term {
    pub name: String,
    pub family: Option<String>,
    pub filters: BTreeSet<Entry>,
    /// `Some("accept")` ...
    pub action: Option<String>,
}

#[derive(Debug, Clone, PartialEq, Eq, Serialize, Deserialize, Default)]
pub struct Policy {
    pub name: String,
    pub comment: Option<String>,
    pub terms: Vec<Term>,
    pub default_action: Option<String>,
}

#[derive(Debug, Clone, PartialEq, Eq, Serialize, Deserialize, Default)]
pub struct Config {
    pub policies: Vec<Policy>,
}

#[derive(Debug, Clone, PartialEq, Eq)]
pub struct LoadOutcome {
    /// "statement not found" style warnings (deleting something absent)
    pub warnings: Vec<String>,
    /// names of the policy statements the payload touched
    pub touched: Vec<String>,
    /// names deleted
    pub deleted: Vec<String>,
}

fn only_known(e: &Elem, allowed: &[&str], path: &str) -> Result<(), String> {
    for c in e.elems() {
        if !allowed.contains(&c.name.as_str()) {
            return Err(format!("unexpected element <{}> under {path}", c.name));
        }
    }
    for n in &e.children {
        if let crate::xmlstrict::Node::Text(t) = n {
            if !t.trim().is_empty() && e.elems().next().is_some() {
                return Err(format!("unexpected text {t:?} under {path}"));
            }
        }
    }
    Ok(())
}

fn is_delete(e: &Elem) -> Result<bool, String> {
    let mut del = false;
    for (k, v) in &e.attrs {
        match (k.as_str(), v.as_str()) {
            ("delete", "delete") => del = true,
            ("junos:comment", _) => {}
            (k, v) => return Err(format!("unexpected attribute {k}={v:?} on <{}>", e.name)),
        }
    }
    Ok(del)
}

impl Config {
    pub fn get(&self, name: &str) -> Option<&Policy> {
        self.policies.iter().find(|p| p.name == name)
    }

    /// Apply one `<load-configuration action="merge" format="xml">` payload
    /// (the `<configuration>` element). Strict about element paths.
    pub fn apply_merge(&mut self, configuration: &Elem) -> Result<LoadOutcome, String> {
        let mut out = LoadOutcome {
            warnings: Vec::new(),
            touched: Vec::new(),
            deleted: Vec::new(),
        };
        if configuration.name != "configuration" {
            return Err(format!("payload root is <{}>", configuration.name));
        }
        if !configuration.attrs.is_empty() {
            return Err("attributes on <configuration>".into());
        }
        only_known(configuration, &["policy-options"], "configuration")?;
        for po in configuration.elems() {
            if !po.attrs.is_empty() {
                return Err("attributes on <policy-options>".into());
            }
            only_known(po, &["policy-statement"], "configuration/policy-options")?;
            for ps in po.elems() {
                self.apply_statement(ps, &mut out)?;
            }
        }
        Ok(out)
    }

    fn apply_statement(&mut self, ps: &Elem, out: &mut LoadOutcome) -> Result<(), String> {
        let path = "configuration/policy-options/policy-statement";
        let del = is_delete(ps)?;
        only_known(ps, &["name", "term", "then"], path)?;
        let names: Vec<&Elem> = ps.children_named("name").collect();
        if names.len() != 1 {
            return Err(format!("{} <name> elements in {path}", names.len()));
        }
        if ps.elems().next().map(|e| e.name.as_str()) != Some("name") {
            return Err("<name> must be the first child of <policy-statement>".into());
        }
        let name = names[0].text();
        if name.is_empty() {
            return Err("empty policy-statement name".into());
        }
        out.touched.push(name.clone());
        if del {
            let before = self.policies.len();
            self.policies.retain(|p| p.name != name);
            if self.policies.len() == before {
                out.warnings
                    .push(format!("statement not found: policy-statement {name}"));
            } else {
                out.deleted.push(name);
            }
            return Ok(());
        }
        let idx = match self.policies.iter().position(|p| p.name == name) {
            Some(i) => i,
            None => {
                self.policies.push(Policy {
                    name: name.clone(),
                    ..Policy::default()
                });
                self.policies.len() - 1
            }
        };
        if let Some(c) = ps.attr("junos:comment") {
            self.policies[idx].comment = Some(c.to_string());
        }
        for child in ps.elems() {
            match child.name.as_str() {
                "name" => {}
                "term" => {
                    let warnings = apply_term(&mut self.policies[idx], child)?;
                    out.warnings.extend(warnings);
                }
                "then" => {
                    only_known(child, &["accept", "reject", "next"], &format!("{path}/then"))?;
                    for a in child.elems() {
                        self.policies[idx].default_action = Some(a.name.clone());
                    }
                }
                _ => unreachable!(),
            }
        }
        Ok(())
    }

    /// the `<configuration>` element of a get-config reply for this database
    pub fn render(&self) -> X {
        let mut cfg = X::container(Ns::Xnm, "configuration")
            .nsattr(Ns::Junos, "changed-seconds", "1709120869")
            .nsattr(Ns::Junos, "changed-localtime", "2024-02-28 11:47:49 UTC");
        if self.policies.is_empty() {
            return cfg;
        }
        let mut po = X::container(Ns::Xnm, "policy-options");
        for p in &self.policies {
            let mut ps =
                X::container(Ns::Xnm, "policy-statement").kid(X::new(Ns::Xnm, "name").text(&p.name));
            // (junos:comment attributes are not returned by the ephemeral database)
            for t in &p.terms {
                let mut term = X::container(Ns::Xnm, "term").kid(X::new(Ns::Xnm, "name").text(&t.name));
                if t.family.is_some() || !t.filters.is_empty() {
                    let mut from = X::container(Ns::Xnm, "from");
                    if let Some(f) = &t.family {
                        from = from.kid(X::leaf(Ns::Xnm, "family", f));
                    }
                    for (addr, range) in &t.filters {
                        from = from.kid(
                            X::container(Ns::Xnm, "route-filter")
                                .kid(X::new(Ns::Xnm, "address").text(addr))
                                .kid(X::leaf(Ns::Xnm, "choice-ident", "prefix-length-range"))
                                .kid(X::new(Ns::Xnm, "choice-value").text(range)),
                        );
                    }
                    term = term.kid(from);
                }
                if let Some(a) = &t.action {
                    term = term.kid(X::container(Ns::Xnm, "then").kid(X::new(Ns::Xnm, a)));
                }
                ps = ps.kid(term);
            }
            if let Some(a) = &p.default_action {
                ps = ps.kid(X::container(Ns::Xnm, "then").kid(X::new(Ns::Xnm, a)));
            }
            po = po.kid(ps);
        }
        cfg = cfg.kid(po);
        cfg
    }
}

fn apply_term(policy: &mut Policy, term: &Elem) -> Result<Vec<String>, String> {
    let path = "configuration/policy-options/policy-statement/term";
    let mut warnings = Vec::new();
    let del = is_delete(term)?;
    only_known(term, &["name", "from", "then"], path)?;
    let names: Vec<&Elem> = term.children_named("name").collect();
    if names.len() != 1 {
        return Err(format!("{} <name> elements in {path}", names.len()));
    }
    let name = names[0].text();
    if del {
        let before = policy.terms.len();
        policy.terms.retain(|t| t.name != name);
        if policy.terms.len() == before {
            warnings.push(format!("statement not found: term {name}"));
        }
        return Ok(warnings);
    }
    let idx = match policy.terms.iter().position(|t| t.name == name) {
        Some(i) => i,
        None => {
            policy.terms.push(Term {
                name: name.clone(),
                ..Term::default()
            });
            policy.terms.len() - 1
        }
    };
    let t = &mut policy.terms[idx];
    for child in term.elems() {
        match child.name.as_str() {
            "name" => {}
            "from" => {
                only_known(child, &["family", "route-filter"], &format!("{path}/from"))?;
                for f in child.elems() {
                    match f.name.as_str() {
                        "family" => t.family = Some(f.text()),
                        "route-filter" => {
                            let rdel = is_delete(f)?;
                            only_known(
                                f,
                                &["address", "prefix-length-range"],
                                &format!("{path}/from/route-filter"),
                            )?;
                            let addr = f
                                .child("address")
                                .map(Elem::text)
                                .ok_or("route-filter without <address>")?;
                            let range = f
                                .child("prefix-length-range")
                                .map(Elem::text)
                                .ok_or("route-filter without <prefix-length-range>")?;
                            let key = (addr, range);
                            if rdel {
                                if !t.filters.remove(&key) {
                                    warnings.push(format!(
                                        "statement not found: route-filter {} {}",
                                        key.0, key.1
                                    ));
                                }
                            } else {
                                t.filters.insert(key);
                            }
                        }
                        _ => unreachable!(),
                    }
                }
            }
            "then" => {
                only_known(child, &["accept", "reject", "next"], &format!("{path}/then"))?;
                for a in child.elems() {
                    t.action = Some(a.name.clone());
                }
            }
            _ => unreachable!(),
        }
    }
    Ok(warnings)
}

// ------------------------------------------------------------------ prefixes

#[derive(Debug, Clone, Copy, PartialEq, Eq, Hash, PartialOrd, Ord)]
pub struct Pfx {
    pub v6: bool,
    /// address bits, left-aligned in 128 bits
    pub bits: u128,
    pub len: u8,
}

impl Pfx {
    pub fn max_len(&self) -> u8 {
        if self.v6 {
            128
        } else {
            32
        }
    }
    pub fn parse(s: &str) -> Option<Pfx> {
        let (a, l) = s.split_once('/')?;
        let len: u8 = l.parse().ok()?;
        if let Ok(v4) = a.parse::<std::net::Ipv4Addr>() {
            if len > 32 {
                return None;
            }
            let bits = (u32::from(v4) as u128) << 96;
            Some(Pfx {
                v6: false,
                bits: mask(bits, len),
                len,
            })
        } else if let Ok(v6) = a.parse::<std::net::Ipv6Addr>() {
            if len > 128 {
                return None;
            }
            Some(Pfx {
                v6: true,
                bits: mask(u128::from(v6), len),
                len,
            })
        } else {
            None
        }
    }
    pub fn covers(&self, other: &Pfx) -> bool {
        self.v6 == other.v6 && self.len <= other.len && mask(other.bits, self.len) == self.bits
    }
    pub fn to_string(&self) -> String {
        if self.v6 {
            format!("{}/{}", std::net::Ipv6Addr::from(self.bits), self.len)
        } else {
            format!(
                "{}/{}",
                std::net::Ipv4Addr::from((self.bits >> 96) as u32),
                self.len
            )
        }
    }
    /// a more specific prefix of length `len` inside this one, choosing `fill` for the new bits
    pub fn extend(&self, len: u8, fill: bool) -> Pfx {
        let mut bits = self.bits;
        if fill {
            for i in self.len..len {
                bits |= 1u128 << (127 - i as u32);
            }
        }
        Pfx {
            v6: self.v6,
            bits,
            len,
        }
    }
}

pub fn mask(bits: u128, len: u8) -> u128 {
    if len == 0 {
        0
    } else {
        bits & (u128::MAX << (128 - len as u32))
    }
}

/// a prefix range: all more-specifics of `base` with length in lo..=hi
#[derive(Debug, Clone, Copy, PartialEq, Eq, Hash, PartialOrd, Ord)]
pub struct PRange {
    pub base: Pfx,
    pub lo: u8,
    pub hi: u8,
}

impl PRange {
    pub fn contains(&self, p: &Pfx) -> bool {
        self.base.covers(p) && p.len >= self.lo && p.len <= self.hi
    }
    /// from a model entry (address, "/lo-/hi")
    pub fn from_entry(e: &Entry) -> Option<PRange> {
        let base = Pfx::parse(&e.0)?;
        let (lo, hi) = e.1.split_once('-')?;
        let lo: u8 = lo.strip_prefix('/')?.parse().ok()?;
        let hi: u8 = hi.strip_prefix('/')?.parse().ok()?;
        Some(PRange { base, lo, hi })
    }
    pub fn to_entry(&self) -> Entry {
        (self.base.to_string(), format!("/{}-/{}", self.lo, self.hi))
    }
    /// the `prefix,lower,upper` form the agent hooks take / give
    pub fn to_plain(&self) -> String {
        format!("{},{},{}", self.base.to_string(), self.lo, self.hi)
    }
    pub fn from_plain(s: &str) -> Option<PRange> {
        let mut it = s.split(',');
        let base = Pfx::parse(it.next()?)?;
        let lo = it.next()?.parse().ok()?;
        let hi = it.next()?.parse().ok()?;
        Some(PRange { base, lo, hi })
    }
    /// representative prefixes around the boundaries of this range
    pub fn representatives(&self) -> Vec<Pfx> {
        let mut v = Vec::new();
        let max = self.base.max_len();
        let mut lens: Vec<i16> = vec![
            self.base.len as i16 - 1,
            self.base.len as i16,
            self.lo as i16 - 1,
            self.lo as i16,
            self.hi as i16,
            self.hi as i16 + 1,
            max as i16,
        ];
        lens.sort_unstable();
        lens.dedup();
        for l in lens {
            if l < 0 || l > max as i16 {
                continue;
            }
            let l = l as u8;
            if l >= self.base.len {
                v.push(self.base.extend(l, false));
                v.push(self.base.extend(l, true));
            } else {
                v.push(Pfx {
                    v6: self.base.v6,
                    bits: mask(self.base.bits, l),
                    len: l,
                });
            }
        }
        // a sibling just outside the base prefix
        if self.base.len > 0 {
            let flip = 1u128 << (128 - self.base.len as u32);
            for l in [self.lo, self.hi] {
                let sib = Pfx {
                    v6: self.base.v6,
                    bits: self.base.bits ^ flip,
                    len: self.base.len,
                };
                if l >= sib.len {
                    v.push(sib.extend(l, false));
                }
            }
        }
        v
    }
}

/// First-match policy evaluation on one route (prefix): `Some(action)` of the first matching
/// term that has an action, else the default action. A term matches if its family matches (when
/// set) and it has no route-filter or one of them contains the prefix (the union of the ranges is
/// an upper bound of what Junos' longest-match lookup accepts).
pub fn evaluate(policy: &Policy, p: &Pfx) -> Option<String> {
    for t in &policy.terms {
        let fam_ok = match t.family.as_deref() {
            None => true,
            Some("inet") => !p.v6,
            Some("inet6") => p.v6,
            Some(_) => false,
        };
        if !fam_ok {
            continue;
        }
        let filt_ok = t.filters.is_empty()
            || t.filters
                .iter()
                .filter_map(PRange::from_entry)
                .any(|r| r.contains(p));
        if !filt_ok {
            continue;
        }
        if let Some(a) = &t.action {
            if a != "next" {
                return Some(a.clone());
            }
        }
    }
    policy.default_action.clone()
}

/// accept entries of a policy per family (the state description the properties use)
pub fn accept_entries(policy: &Policy, family: &str) -> BTreeSet<Entry> {
    let mut out = BTreeSet::new();
    for t in &policy.terms {
        if t.action.as_deref() == Some("accept") && t.family.as_deref() == Some(family) {
            out.extend(t.filters.iter().cloned());
        }
    }
    out
}
