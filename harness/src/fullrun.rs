//! Engine B — the agent's real `Updater::run()` (through the `run_once` hook) on a multi-thread
//! tokio runtime: real session over the in-memory transport against the fake Junos, real
//! `RpslEvaluator` over loopback TCP against the fake IRRd.

use std::{
    sync::{Arc, Mutex},
    time::Duration,
};

use crate::fake_junos::{self, FakeJunos};

#[derive(Debug, Clone, PartialEq, Eq)]
pub enum RunResult {
    Ok,
    /// error chain rendered with `{:#}`
    Err(String),
    /// the run did not complete within the watchdog although every peer is in-process
    Stuck,
}

impl RunResult {
    pub fn is_ok(&self) -> bool {
        matches!(self, RunResult::Ok)
    }
}

/// how the agent is run: in-process through the `run_once` hook over the in-memory transport,
/// or as the unmodified binary (`remote` target, TLS on loopback)
#[derive(Debug, Clone, Copy, PartialEq, Eq)]
pub enum Runner {
    Hook,
    Binary,
}

pub fn agent_run(
    runner: Runner,
    fake: &Arc<Mutex<FakeJunos>>,
    irr: (&str, u16),
    db: &str,
) -> RunResult {
    match runner {
        Runner::Hook => full_run(fake, irr, db),
        Runner::Binary => {
            let server = match crate::binrun::JunosTlsServer::start(fake.clone()) {
                Ok(s) => s,
                Err(e) => return RunResult::Err(format!("harness: tls front end: {e}")),
            };
            let r = crate::binrun::run_agent(&crate::binrun::AgentOpts {
                netconf_port: server.port,
                irr_port: irr.1,
                db,
                verbosity: 0,
                rust_log: None,
                client_cert: "client-rsa.crt",
                client_key: "client-rsa.pk8.key",
                limit: Duration::from_secs(30),
            });
            drop(server);
            match r {
                Err(e) => RunResult::Err(format!("harness: {e}")),
                Ok(b) if b.timed_out => RunResult::Stuck,
                Ok(b) if b.exit == Some(0) => RunResult::Ok,
                Ok(b) => RunResult::Err(format!(
                    "exit {:?}: {}",
                    b.exit,
                    b.stderr.lines().rev().take(3).collect::<Vec<_>>().join(" | ")
                )),
            }
        }
    }
}

/// one real agent run; `irr` = (host, port) of the IRR server (may be unreachable on purpose)
pub fn full_run(fake: &Arc<Mutex<FakeJunos>>, irr: (&str, u16), db: &str) -> RunResult {
    let rt = match tokio::runtime::Builder::new_multi_thread()
        .worker_threads(2)
        .enable_all()
        .build()
    {
        Ok(rt) => rt,
        Err(e) => return RunResult::Err(format!("harness: cannot build runtime: {e}")),
    };
    let factory = fake_junos::factory(fake);
    let (host, port) = (irr.0.to_string(), irr.1);
    let db = db.to_string();
    // a panic of the code under test inside the run is a failed run (the binary would exit with
    // 101), not a failure of the harness
    let res = crate::core::catch(|| {
        rt.block_on(async move {
            tokio::time::timeout(
                Duration::from_secs(15),
                bgpfu_junos_agent::verif::run_once(factory, &host, port, &db),
            )
            .await
        })
    });
    rt.shutdown_timeout(Duration::from_millis(200));
    match res {
        Err((loc, msg)) => RunResult::Err(format!("the run panicked at {loc}: {msg}")),
        Ok(Err(_)) => RunResult::Stuck,
        Ok(Ok(Ok(()))) => RunResult::Ok,
        Ok(Ok(Err(e))) => RunResult::Err(format!("{e:#}")),
    }
}
