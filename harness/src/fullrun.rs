//! Engine B — the agent's real `Updater::run()` (through the `run_once` hook) on a multi-thread
//! tokio runtime: real session over the in-memory transport against the fake Junos, real
//! `RpslEvaluator` over loopback TCP against the fake IRRd.

use std::{
    sync::{Arc, Mutex},
    time::Duration,
};

use crate::fake_junos::{self, FakeJunos};

#[derive(Debug, Clone, PartialEq, Eq)]
pub enum RunResult {
    Ok,
    /// error chain rendered with `{:#}`
    Err(String),
    /// the run did not complete within the watchdog although every peer is in-process
    Stuck,
}

impl RunResult {
    pub fn is_ok(&self) -> bool {
        matches!(self, RunResult::Ok)
    }
}

/// one real agent run; `irr` = (host, port) of the IRR server (may be unreachable on purpose)
pub fn full_run(fake: &Arc<Mutex<FakeJunos>>, irr: (&str, u16), db: &str) -> RunResult {
    let rt = match tokio::runtime::Builder::new_multi_thread()
        .worker_threads(2)
        .enable_all()
        .build()
    {
        Ok(rt) => rt,
        Err(e) => return RunResult::Err(format!("harness: cannot build runtime: {e}")),
    };
    let factory = fake_junos::factory(fake);
    let (host, port) = (irr.0.to_string(), irr.1);
    let db = db.to_string();
    let res = rt.block_on(async move {
        tokio::time::timeout(
            Duration::from_secs(15),
            bgpfu_junos_agent::verif::run_once(factory, &host, port, &db),
        )
        .await
    });
    rt.shutdown_timeout(Duration::from_millis(200));
    match res {
        Err(_) => RunResult::Stuck,
        Ok(Ok(())) => RunResult::Ok,
        Ok(Err(e)) => RunResult::Err(format!("{e:#}")),
    }
}
