//! A serialisable description of every request the library's public builders can produce, and
//! the code that issues it on an in-memory session (engine F). `None` for an optional parameter
//! means "the builder method is not called".

use std::time::Duration;

use netconf::{
    message::rpc::operation::{
        edit_config::{DefaultOperation, ErrorOption, TestOption},
        junos::{
            load_configuration::{
                Config, Json, Merge, Override, Replace, Rescue, Set, Text, Update, Xml,
            },
            CloseConfiguration, CommitConfiguration, LoadConfiguration, LockConfiguration,
            OpenConfiguration, UnlockConfiguration,
        },
        Builder as _, CancelCommit, Commit, CopyConfig, Datastore, DeleteConfig, DiscardChanges,
        EditConfig, Filter, Get, GetConfig, KillSession, Lock, Opaque, Token, Unlock, Validate,
    },
    Error, Session,
};
use serde::{Deserialize, Serialize};

use crate::{
    mem::{drive, MemTransport, Wire},
    sess::{exchange, message_id_lenient, Exchange},
};

#[derive(Debug, Clone, Copy, PartialEq, Eq, Serialize, Deserialize, Hash)]
pub enum Ds {
    Running,
    Candidate,
    Startup,
}

impl Ds {
    pub const ALL: [Ds; 3] = [Ds::Running, Ds::Candidate, Ds::Startup];
    pub fn to_lib(self) -> Datastore {
        match self {
            Ds::Running => Datastore::Running,
            Ds::Candidate => Datastore::Candidate,
            Ds::Startup => Datastore::Startup,
        }
    }
    pub fn as_str(self) -> &'static str {
        match self {
            Ds::Running => "running",
            Ds::Candidate => "candidate",
            Ds::Startup => "startup",
        }
    }
}

#[derive(Debug, Clone, PartialEq, Eq, Serialize, Deserialize, Hash)]
pub enum FilterSpec {
    Subtree(String),
    XPath(String),
}

impl FilterSpec {
    fn to_lib(&self) -> Filter {
        match self {
            Self::Subtree(s) => Filter::Subtree(s.clone()),
            Self::XPath(s) => Filter::XPath(s.clone()),
        }
    }
}

#[derive(Debug, Clone, PartialEq, Eq, Serialize, Deserialize, Hash)]
pub enum CfgOrUrl {
    Config(String),
    Url(String),
}

#[derive(Debug, Clone, PartialEq, Eq, Serialize, Deserialize, Hash)]
pub enum DsOrCfg {
    Ds(Ds),
    Config(String),
}

#[derive(Debug, Clone, PartialEq, Eq, Serialize, Deserialize, Hash)]
pub enum DsOrUrl {
    Ds(Ds),
    Url(String),
}

#[derive(Debug, Clone, PartialEq, Eq, Serialize, Deserialize, Hash)]
pub enum OpenTarget {
    Private,
    EphemeralDefault,
    EphemeralNamed(String),
}

#[derive(Debug, Clone, PartialEq, Eq, Serialize, Deserialize, Hash)]
pub enum AtSpec {
    Reboot,
    /// seconds since midnight
    TodayAt(u32),
    /// unix timestamp
    At(i64),
}

#[derive(Debug, Clone, PartialEq, Eq, Serialize, Deserialize, Hash)]
pub enum LoadSrc {
    /// action index: 0 merge, 1 override, 2 update, 3 replace
    Xml(String, u8),
    /// action index: 0 merge, 1 override, 2 update, 3 replace, 4 set
    Text(String, u8),
    /// action index: 0 merge, 1 override, 2 update
    Json(String, u8),
    Rescue,
}

#[derive(Debug, Clone, PartialEq, Eq, Serialize, Deserialize, Hash)]
pub enum ReqSpec {
    Get {
        filter: Option<Option<FilterSpec>>,
    },
    GetConfig {
        source: Option<Ds>,
        filter: Option<Option<FilterSpec>>,
    },
    EditConfig {
        target: Option<Ds>,
        source: Option<CfgOrUrl>,
        /// 0 merge 1 replace 2 none
        default_operation: Option<u8>,
        /// 0 stop 1 continue 2 rollback
        error_option: Option<u8>,
        /// 0 test-then-set 1 set 2 test-only
        test_option: Option<u8>,
        /// the order in which the caller makes the five builder calls (a permutation code; 0 =
        /// target, config/url, default-operation, error-option, test-option)
        #[serde(default)]
        order: u8,
    },
    CopyConfig {
        target: Option<Ds>,
        source: Option<DsOrCfg>,
    },
    DeleteConfig {
        target: Option<DsOrUrl>,
    },
    Lock {
        target: Option<Ds>,
    },
    Unlock {
        target: Option<Ds>,
    },
    KillSession {
        id: Option<u32>,
    },
    Commit {
        confirmed: Option<bool>,
        confirm_timeout: Option<u64>,
        persist: Option<Option<String>>,
        persist_id: Option<Option<String>>,
        /// the order in which the caller makes the builder calls (a permutation code; 0 =
        /// confirmed, confirm_timeout, persist, persist_id)
        #[serde(default)]
        order: u8,
    },
    CancelCommit {
        persist_id: Option<Option<String>>,
    },
    DiscardChanges,
    Validate {
        source: Option<DsOrCfg>,
    },
    CloseSession,
    OpenConfiguration {
        target: Option<OpenTarget>,
    },
    CloseConfiguration,
    LockConfiguration,
    UnlockConfiguration,
    CommitConfiguration {
        check: Option<bool>,
        at: Option<AtSpec>,
        /// Some(None) = confirmed(true); Some(Some(secs)) = confirmed_with_timeout
        confirm: Option<Option<u64>>,
        log: Option<String>,
        sync: Option<bool>,
    },
    LoadConfiguration {
        src: Option<LoadSrc>,
    },
}

#[derive(Debug, Clone, Copy, PartialEq, Eq)]
pub enum ReplyKind {
    Empty,
    Data,
    Bare,
    Load,
}

/// the `code`-th permutation of 0..n (factorial number system; 0 = identity)
pub fn permutation(n: u8, code: usize) -> Vec<u8> {
    let mut calls: Vec<u8> = (0..n).collect();
    let mut code = code;
    let mut seq = Vec::new();
    while !calls.is_empty() {
        let i = code % calls.len();
        code /= calls.len();
        seq.push(calls.remove(i));
    }
    seq
}

impl ReqSpec {
    pub fn op_name(&self) -> &'static str {
        match self {
            Self::Get { .. } => "get",
            Self::GetConfig { .. } => "get-config",
            Self::EditConfig { .. } => "edit-config",
            Self::CopyConfig { .. } => "copy-config",
            Self::DeleteConfig { .. } => "delete-config",
            Self::Lock { .. } => "lock",
            Self::Unlock { .. } => "unlock",
            Self::KillSession { .. } => "kill-session",
            Self::Commit { .. } => "commit",
            Self::CancelCommit { .. } => "cancel-commit",
            Self::DiscardChanges => "discard-changes",
            Self::Validate { .. } => "validate",
            Self::CloseSession => "close-session",
            Self::OpenConfiguration { .. } => "open-configuration",
            Self::CloseConfiguration => "close-configuration",
            Self::LockConfiguration => "lock-configuration",
            Self::UnlockConfiguration => "unlock-configuration",
            Self::CommitConfiguration { .. } => "commit-configuration",
            Self::LoadConfiguration { .. } => "load-configuration",
        }
    }

    pub fn reply_kind(&self) -> ReplyKind {
        match self {
            Self::Get { .. } | Self::GetConfig { .. } => ReplyKind::Data,
            Self::OpenConfiguration { .. }
            | Self::CloseConfiguration
            | Self::LockConfiguration
            | Self::UnlockConfiguration => ReplyKind::Bare,
            Self::LoadConfiguration { .. } => ReplyKind::Load,
            _ => ReplyKind::Empty,
        }
    }

    /// One plain, fully permitted (under `sess::all_caps`) request per operation.
    pub fn canonical() -> Vec<ReqSpec> {
        vec![
            Self::Get { filter: None },
            Self::GetConfig {
                source: Some(Ds::Running),
                filter: None,
            },
            Self::EditConfig {
                target: Some(Ds::Candidate),
                source: Some(CfgOrUrl::Config("<top/>".into())),
                default_operation: None,
                error_option: None,
                test_option: None,
                order: 0,
            },
            Self::CopyConfig {
                target: Some(Ds::Candidate),
                source: Some(DsOrCfg::Ds(Ds::Running)),
            },
            Self::DeleteConfig {
                target: Some(DsOrUrl::Ds(Ds::Startup)),
            },
            Self::Lock {
                target: Some(Ds::Running),
            },
            Self::Unlock {
                target: Some(Ds::Running),
            },
            Self::KillSession { id: Some(17) },
            Self::Commit {
                confirmed: None,
                confirm_timeout: None,
                persist: None,
                persist_id: None,
                order: 0,
            },
            Self::CancelCommit { persist_id: None },
            Self::DiscardChanges,
            Self::Validate {
                source: Some(DsOrCfg::Ds(Ds::Candidate)),
            },
            Self::CloseSession,
            Self::OpenConfiguration {
                target: Some(OpenTarget::EphemeralNamed("bgpfu".into())),
            },
            Self::CloseConfiguration,
            Self::LockConfiguration,
            Self::UnlockConfiguration,
            Self::CommitConfiguration {
                check: None,
                at: None,
                confirm: None,
                log: None,
                sync: None,
            },
            Self::LoadConfiguration {
                src: Some(LoadSrc::Xml("<configuration/>".into(), 0)),
            },
        ]
    }
}

/// Normalised result of issuing a request and feeding it a reply.
#[derive(Debug, Clone, PartialEq, Eq)]
pub enum Outcome {
    /// refused locally; payload = Debug of the error
    Refused(String),
    /// Ok(value); payload = Debug of the value
    Ok(String),
    /// Err(RpcError(list)); payload = Debug of each error
    RpcErrors(Vec<String>),
    /// any other error; payload = Debug of the error
    OtherErr(String),
    /// the reply future never resolved although nothing more will arrive
    Stuck,
    /// the send future did not resolve
    SendStuck,
}

impl Outcome {
    pub fn is_ok(&self) -> bool {
        matches!(self, Self::Ok(_))
    }
    /// coarse class used by metamorphic comparisons (errors compared as a class)
    pub fn class(&self) -> String {
        match self {
            Self::Refused(_) => "refused".into(),
            Self::Ok(v) => format!("ok:{v}"),
            Self::RpcErrors(v) => format!("rpc-errors:{v:?}"),
            Self::OtherErr(_) => "error".into(),
            Self::Stuck => "stuck".into(),
            Self::SendStuck => "send-stuck".into(),
        }
    }
}

fn norm<T: std::fmt::Debug>(e: Exchange<T>) -> (Vec<u8>, Outcome) {
    match e {
        Exchange::Refused(err) => (Vec::new(), Outcome::Refused(format!("{err:?}"))),
        Exchange::SendStuck => (Vec::new(), Outcome::SendStuck),
        Exchange::Stuck { request } => (request, Outcome::Stuck),
        Exchange::Done { request, result } => {
            let o = match result {
                Ok(v) => Outcome::Ok(format!("{v:?}")),
                Err(Error::RpcError(errs)) => {
                    Outcome::RpcErrors(errs.iter().map(|e| format!("{e:?}")).collect())
                }
                Err(e) => Outcome::OtherErr(format!("{e:?}")),
            };
            (request, o)
        }
    }
}

fn tok(t: &Option<String>) -> Option<Token> {
    t.as_ref().map(Token::new)
}

/// Issue `spec` on the session; `reply(message_id)` supplies the server's answer(s).
/// Consumes the session (close-session does) and hands it back when still alive.
pub fn run_req<R>(
    sess: Session<MemTransport>,
    wire: &Wire,
    spec: &ReqSpec,
    reply: R,
) -> (Option<Session<MemTransport>>, Vec<u8>, Outcome)
where
    R: FnOnce(&str) -> Vec<Vec<u8>>,
{
    let mut sess = sess;
    macro_rules! ex {
        ($op:ty, $build:expr) => {{
            let (req, out) = norm(exchange::<$op, _, _>(&mut sess, wire, $build, reply));
            (Some(sess), req, out)
        }};
    }
    match spec.clone() {
        ReqSpec::Get { filter } => ex!(Get, move |mut b| {
            if let Some(f) = filter {
                b = b.filter(f.as_ref().map(FilterSpec::to_lib));
            }
            b.finish()
        }),
        ReqSpec::GetConfig { source, filter } => ex!(GetConfig<Opaque>, move |mut b| {
            if let Some(s) = source {
                b = b.source(s.to_lib())?;
            }
            if let Some(f) = filter {
                b = b.filter(f.as_ref().map(FilterSpec::to_lib))?;
            }
            b.finish()
        }),
        ReqSpec::EditConfig {
            target,
            source,
            default_operation,
            error_option,
            test_option,
            order,
        } => ex!(EditConfig<Opaque>, move |mut b| {
            let mut source = source;
            for c in permutation(5, order as usize) {
                match c {
                    0 => {
                        if let Some(t) = target {
                            b = b.target(t.to_lib())?;
                        }
                    }
                    1 => match source.take() {
                        Some(CfgOrUrl::Config(c)) => b = b.config(Opaque::from(c)),
                        Some(CfgOrUrl::Url(u)) => b = b.url(u)?,
                        None => {}
                    },
                    2 => {
                        if let Some(d) = default_operation {
                            b = b.default_operation(match d {
                                0 => DefaultOperation::Merge,
                                1 => DefaultOperation::Replace,
                                _ => DefaultOperation::None,
                            });
                        }
                    }
                    3 => {
                        if let Some(e) = error_option {
                            b = b.error_option(match e {
                                0 => ErrorOption::StopOnError,
                                1 => ErrorOption::ContinueOnError,
                                _ => ErrorOption::RollbackOnError,
                            })?;
                        }
                    }
                    _ => {
                        if let Some(t) = test_option {
                            b = b.test_option(match t {
                                0 => TestOption::TestThenSet,
                                1 => TestOption::Set,
                                _ => TestOption::TestOnly,
                            })?;
                        }
                    }
                }
            }
            b.finish()
        }),
        ReqSpec::CopyConfig { target, source } => ex!(CopyConfig, move |mut b| {
            if let Some(t) = target {
                b = b.target(t.to_lib())?;
            }
            match source {
                Some(DsOrCfg::Ds(d)) => b = b.source(d.to_lib())?,
                Some(DsOrCfg::Config(c)) => b = b.config(c),
                None => {}
            }
            b.finish()
        }),
        ReqSpec::DeleteConfig { target } => ex!(DeleteConfig, move |mut b| {
            match target {
                Some(DsOrUrl::Ds(d)) => b = b.target(d.to_lib())?,
                Some(DsOrUrl::Url(u)) => b = b.url(u)?,
                None => {}
            }
            b.finish()
        }),
        ReqSpec::Lock { target } => ex!(Lock, move |mut b| {
            if let Some(t) = target {
                b = b.target(t.to_lib())?;
            }
            b.finish()
        }),
        ReqSpec::Unlock { target } => ex!(Unlock, move |mut b| {
            if let Some(t) = target {
                b = b.target(t.to_lib())?;
            }
            b.finish()
        }),
        ReqSpec::KillSession { id } => ex!(KillSession, move |mut b| {
            if let Some(i) = id {
                b = b.session_id(i)?;
            }
            b.finish()
        }),
        ReqSpec::Commit {
            confirmed,
            confirm_timeout,
            persist,
            persist_id,
            order,
        } => ex!(Commit, move |mut b| {
            // the four builder calls in the order the case asks for
            for c in permutation(4, order as usize) {
                match c {
                    0 => {
                        if let Some(c) = confirmed {
                            b = b.confirmed(c)?;
                        }
                    }
                    1 => {
                        if let Some(t) = confirm_timeout {
                            b = b.confirm_timeout(Duration::from_secs(t))?;
                        }
                    }
                    2 => {
                        if let Some(p) = persist.clone() {
                            b = b.persist(tok(&p))?;
                        }
                    }
                    _ => {
                        if let Some(p) = persist_id.clone() {
                            b = b.persist_id(tok(&p))?;
                        }
                    }
                }
            }
            b.finish()
        }),
        ReqSpec::CancelCommit { persist_id } => ex!(CancelCommit, move |mut b| {
            if let Some(p) = persist_id {
                b = b.persist_id(tok(&p))?;
            }
            b.finish()
        }),
        ReqSpec::DiscardChanges => ex!(DiscardChanges, |b| b.finish()),
        ReqSpec::Validate { source } => ex!(Validate, move |mut b| {
            match source {
                Some(DsOrCfg::Ds(d)) => b = b.source(d.to_lib())?,
                Some(DsOrCfg::Config(c)) => b = b.config(c),
                None => {}
            }
            b.finish()
        }),
        ReqSpec::CloseSession => {
            let before = wire.sent_count();
            let fut = match drive(sess.close()) {
                None => return (None, Vec::new(), Outcome::SendStuck),
                Some(Err(e)) => return (None, Vec::new(), Outcome::Refused(format!("{e:?}"))),
                Some(Ok(f)) => f,
            };
            let request = wire
                .sent()
                .get(before)
                .map(|b| b.to_vec())
                .unwrap_or_default();
            let id = message_id_lenient(&request).unwrap_or_else(|| "0".into());
            for m in reply(&id) {
                wire.push(m);
            }
            let out = match drive(fut) {
                None => Outcome::Stuck,
                Some(Ok(())) => Outcome::Ok("()".into()),
                Some(Err(Error::RpcError(errs))) => {
                    Outcome::RpcErrors(errs.iter().map(|e| format!("{e:?}")).collect())
                }
                Some(Err(e)) => Outcome::OtherErr(format!("{e:?}")),
            };
            (None, request, out)
        }
        ReqSpec::OpenConfiguration { target } => ex!(OpenConfiguration, move |mut b| {
            match target {
                Some(OpenTarget::Private) => b = b.private(),
                Some(OpenTarget::EphemeralDefault) => b = b.ephemeral(None::<&str>),
                Some(OpenTarget::EphemeralNamed(n)) => b = b.ephemeral(Some(n)),
                None => {}
            }
            b.finish()
        }),
        ReqSpec::CloseConfiguration => ex!(CloseConfiguration, |b| b.finish()),
        ReqSpec::LockConfiguration => ex!(LockConfiguration, |b| b.finish()),
        ReqSpec::UnlockConfiguration => ex!(UnlockConfiguration, |b| b.finish()),
        ReqSpec::CommitConfiguration {
            check,
            at,
            confirm,
            log,
            sync,
        } => ex!(CommitConfiguration, move |mut b| {
            if let Some(c) = check {
                b = b.check(c);
            }
            match at {
                Some(AtSpec::Reboot) => b = b.at_reboot(),
                Some(AtSpec::TodayAt(s)) => {
                    let t = chrono::NaiveTime::from_num_seconds_from_midnight_opt(s % 86_400, 0)
                        .expect("valid time");
                    b = b.today_at(t);
                }
                Some(AtSpec::At(ts)) => {
                    let dt = chrono::DateTime::from_timestamp(ts.rem_euclid(4_102_444_800), 0)
                        .expect("valid timestamp")
                        .naive_utc();
                    b = b.at(dt);
                }
                None => {}
            }
            match confirm {
                Some(None) => b = b.confirmed(true),
                Some(Some(secs)) => b = b.confirmed_with_timeout(Duration::from_secs(secs)),
                None => {}
            }
            if let Some(l) = log {
                b = b.with_log_message(l);
            }
            if let Some(s) = sync {
                b = b.synchronize(s);
            }
            b.finish()
        }),
        ReqSpec::LoadConfiguration { src } => match src {
            None => ex!(LoadConfiguration<Rescue>, |b| b.finish()),
            Some(LoadSrc::Rescue) => ex!(LoadConfiguration<Rescue>, |b| b.source(Rescue).finish()),
            Some(LoadSrc::Xml(x, a)) => {
                let d = Opaque::from(x);
                match a {
                    0 => ex!(LoadConfiguration<_>, |b| b
                        .source(Config::new(d, Xml, Merge))
                        .finish()),
                    1 => ex!(LoadConfiguration<_>, |b| b
                        .source(Config::new(d, Xml, Override))
                        .finish()),
                    2 => ex!(LoadConfiguration<_>, |b| b
                        .source(Config::new(d, Xml, Update))
                        .finish()),
                    _ => ex!(LoadConfiguration<_>, |b| b
                        .source(Config::new(d, Xml, Replace))
                        .finish()),
                }
            }
            Some(LoadSrc::Text(d, a)) => match a {
                0 => ex!(LoadConfiguration<_>, |b| b
                    .source(Config::new(d, Text, Merge))
                    .finish()),
                1 => ex!(LoadConfiguration<_>, |b| b
                    .source(Config::new(d, Text, Override))
                    .finish()),
                2 => ex!(LoadConfiguration<_>, |b| b
                    .source(Config::new(d, Text, Update))
                    .finish()),
                3 => ex!(LoadConfiguration<_>, |b| b
                    .source(Config::new(d, Text, Replace))
                    .finish()),
                _ => ex!(LoadConfiguration<_>, |b| b
                    .source(Config::new(d, Text, Set))
                    .finish()),
            },
            Some(LoadSrc::Json(d, a)) => match a {
                0 => ex!(LoadConfiguration<_>, |b| b
                    .source(Config::new(d, Json, Merge))
                    .finish()),
                1 => ex!(LoadConfiguration<_>, |b| b
                    .source(Config::new(d, Json, Override))
                    .finish()),
                _ => ex!(LoadConfiguration<_>, |b| b
                    .source(Config::new(d, Json, Update))
                    .finish()),
            },
        },
    }
}
