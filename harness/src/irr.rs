//! Engine G: an IRR database model, a fake IRRd (whois / IRRd query protocol over loopback TCP)
//! and a reference RPSL evaluator (denotational set membership) with an exact comparison of
//! prefix sets by class representatives.

use std::{
    collections::{BTreeMap, BTreeSet},
    io::{BufRead, BufReader, Write},
    net::{TcpListener, TcpStream},
    sync::{
        atomic::{AtomicBool, Ordering},
        Arc, Mutex,
    },
    thread::JoinHandle,
};

use serde::{Deserialize, Serialize};

use crate::junos_model::{mask, PRange, Pfx};

// ------------------------------------------------------------------ database

/// range operator
#[derive(Debug, Clone, Copy, PartialEq, Eq, Hash, Serialize, Deserialize, PartialOrd, Ord)]
pub enum Op {
    None,
    /// `^-`
    Less,
    /// `^+`
    LessEq,
    /// `^n`
    Exact(u8),
    /// `^n-m`
    Range(u8, u8),
}

impl Op {
    pub fn text(self) -> String {
        match self {
            Op::None => String::new(),
            Op::Less => "^-".into(),
            Op::LessEq => "^+".into(),
            Op::Exact(n) => format!("^{n}"),
            Op::Range(n, m) => format!("^{n}-{m}"),
        }
    }
    pub fn lengths(self, out: &mut BTreeSet<u8>) {
        match self {
            Op::Exact(n) => {
                out.insert(n);
            }
            Op::Range(n, m) => {
                out.insert(n);
                out.insert(m);
            }
            _ => {}
        }
    }
    /// does a prefix of length `len` that is a more-specific-or-equal of a member of length
    /// `member_len` satisfy the operator? (RFC 2622 section 2)
    pub fn admits(self, member_len: u8, len: u8) -> bool {
        match self {
            Op::None => len == member_len,
            Op::Less => len > member_len,
            Op::LessEq => len >= member_len,
            Op::Exact(n) => len == n && len >= member_len,
            Op::Range(n, m) => len >= n && len <= m && len >= member_len,
        }
    }
}

#[derive(Debug, Clone, PartialEq, Eq, Hash, Serialize, Deserialize)]
pub enum RsMember {
    /// an address prefix with an optional range operator
    Prefix(String, Op),
    /// another route-set (by name) with an optional range operator
    Set(String, Op),
}

/// how the server answers a query about a key
#[derive(Debug, Clone, Copy, PartialEq, Eq, Hash, Serialize, Deserialize)]
pub enum Answer {
    /// normally, from the data
    Data,
    /// `D` key not found
    NotFound,
    /// `E` key not unique
    NotUnique,
    /// `F <message>`
    Other,
}

#[derive(Debug, Clone, Default, PartialEq, Eq, Serialize, Deserialize)]
pub struct Db {
    /// AS number -> (route prefixes, route6 prefixes)
    pub routes: BTreeMap<u32, (Vec<String>, Vec<String>)>,
    /// as-set name -> members (AS numbers as "AS65000" or as-set names)
    pub as_sets: BTreeMap<String, Vec<String>>,
    pub route_sets: BTreeMap<String, Vec<RsMember>>,
    /// filter-set name -> expressions (one per registered object / source)
    pub filter_sets: BTreeMap<String, Vec<String>>,
    /// keys (upper-cased query argument, e.g. "AS-FOO", "AS65000/g", "AS65000/6") that the server
    /// answers with an error instead of data
    pub errors: BTreeMap<String, Answer>,
    /// answer "no data" as `C` (true) or as `D` key-not-found, like IRRd 4 (false)
    pub empty_as_c: bool,
    /// (epoch, key, answer): like `errors`, but only while the server's epoch (set by the harness
    /// before each member of a sequence of evaluations) has that value - an error injected for
    /// one query of one member of the sequence
    #[serde(default)]
    pub epoch_errors: Vec<(u8, String, Answer)>,
    /// the text of the server's `F` answers: 0 = a short ASCII message; k > 0 = (k-1) % 4 ASCII
    /// letters followed by 400 two-byte (k <= 4) or three-byte (k > 4) characters - an error
    /// message in a language other than English, at every byte alignment
    #[serde(default)]
    pub f_text: u8,
    /// filter-sets whose objects carry only the legacy `filter:` attribute (RFC 2622) and no
    /// `mp-filter:` (RFC 4012)
    #[serde(default)]
    pub legacy_filter_sets: BTreeSet<String>,
}

impl Db {
    pub fn f_message(&self) -> String {
        match self.f_text {
            0 => "injected error".to_string(),
            k => {
                let c = if k <= 4 { '\u{e9}' } else { '\u{2018}' };
                let mut t = "a".repeat((k as usize - 1) % 4);
                t.extend(std::iter::repeat(c).take(400));
                t
            }
        }
    }
    /// recursively expanded AS members of an as-set, as IRRd computes them: unknown nested sets
    /// contribute nothing, cycles are cut
    pub fn as_set_members(&self, name: &str) -> Option<BTreeSet<u32>> {
        let key = name.to_ascii_uppercase();
        self.as_sets.get(&key)?;
        let mut out = BTreeSet::new();
        let mut seen = BTreeSet::new();
        let mut stack = vec![key];
        while let Some(n) = stack.pop() {
            if !seen.insert(n.clone()) {
                continue;
            }
            if let Some(members) = self.as_sets.get(&n) {
                for m in members {
                    let mu = m.to_ascii_uppercase();
                    if let Some(num) = mu.strip_prefix("AS").and_then(|s| s.parse::<u32>().ok()) {
                        out.insert(num);
                    } else {
                        stack.push(mu);
                    }
                }
            }
        }
        Some(out)
    }

    /// recursively expanded members of a route-set as prefix ranges (operators of nested sets
    /// applied per RFC 2622); unknown nested sets contribute nothing, cycles are cut
    pub fn route_set_members(&self, name: &str) -> Option<Vec<(Pfx, Op)>> {
        let key = name.to_ascii_uppercase();
        self.route_sets.get(&key)?;
        let mut out = Vec::new();
        let mut seen = BTreeSet::new();
        self.rs_expand(&key, &mut seen, &mut out);
        Some(out)
    }

    fn rs_expand(&self, key: &str, seen: &mut BTreeSet<String>, out: &mut Vec<(Pfx, Op)>) {
        if !seen.insert(key.to_string()) {
            return;
        }
        let Some(members) = self.route_sets.get(key) else {
            return;
        };
        for m in members {
            match m {
                RsMember::Prefix(p, op) => {
                    if let Some(p) = Pfx::parse(p) {
                        out.push((p, *op));
                    }
                }
                RsMember::Set(n, _op) => {
                    // (operators on nested set references are not generated: IRRd's recursive
                    // expansion returns the nested members as they are)
                    self.rs_expand(&n.to_ascii_uppercase(), seen, out);
                }
            }
        }
    }

    pub fn all_prefixes(&self) -> Vec<Pfx> {
        let mut v = Vec::new();
        for (a, b) in self.routes.values() {
            for p in a.iter().chain(b.iter()) {
                if let Some(p) = Pfx::parse(p) {
                    v.push(p);
                }
            }
        }
        for ms in self.route_sets.values() {
            for m in ms {
                if let RsMember::Prefix(p, _) = m {
                    if let Some(p) = Pfx::parse(p) {
                        v.push(p);
                    }
                }
            }
        }
        v
    }
}

// ------------------------------------------------------------------ fake IRRd

pub struct FakeIrrd {
    pub port: u16,
    pub log: Arc<Mutex<Vec<String>>>,
    epoch: Arc<std::sync::atomic::AtomicUsize>,
    stop: Arc<AtomicBool>,
    thread: Option<JoinHandle<()>>,
}

fn data_response(words: &str) -> Vec<u8> {
    format!("A{}\n{}\nC\n", words.len() + 1, words).into_bytes()
}

impl FakeIrrd {
    /// serve `db` on an ephemeral loopback port; `chunk` > 0 writes responses in pieces of that
    /// many bytes (arbitrary TCP segmentation)
    pub fn start(db: Db, chunk: usize) -> std::io::Result<Self> {
        let listener = crate::net::bind_local_std()?;
        let port = listener.local_addr()?.port();
        listener.set_nonblocking(true)?;
        let log = Arc::new(Mutex::new(Vec::new()));
        let stop = Arc::new(AtomicBool::new(false));
        let (log2, stop2) = (log.clone(), stop.clone());
        let db = Arc::new(db);
        let epoch = Arc::new(std::sync::atomic::AtomicUsize::new(usize::MAX));
        let epoch2 = epoch.clone();
        let thread = std::thread::spawn(move || {
            let mut workers = Vec::new();
            while !stop2.load(Ordering::SeqCst) {
                match listener.accept() {
                    Ok((stream, _)) => {
                        let _ = stream.set_nonblocking(false);
                        let (db, log, epoch) = (db.clone(), log2.clone(), epoch2.clone());
                        workers.push(std::thread::spawn(move || serve(stream, &db, &log, chunk, &epoch)));
                    }
                    Err(e) if e.kind() == std::io::ErrorKind::WouldBlock => {
                        std::thread::sleep(std::time::Duration::from_micros(300));
                    }
                    Err(_) => break,
                }
            }
            for w in workers {
                let _ = w.join();
            }
        });
        Ok(Self {
            port,
            log,
            epoch,
            stop,
            thread: Some(thread),
        })
    }

    /// which member of a sequence of evaluations is running now (selects `Db::epoch_errors`)
    pub fn set_epoch(&self, epoch: usize) {
        self.epoch.store(epoch, Ordering::SeqCst);
    }

    pub fn queries(&self) -> Vec<String> {
        self.log.lock().unwrap().clone()
    }
}

impl Drop for FakeIrrd {
    fn drop(&mut self) {
        self.stop.store(true, Ordering::SeqCst);
        if let Some(t) = self.thread.take() {
            let _ = t.join();
        }
    }
}

fn answer(db: &Db, line: &str, epoch: usize) -> Option<Vec<u8>> {
    let injected = |key: &str| -> Option<Answer> {
        db.epoch_errors
            .iter()
            .find(|(e, k, _)| *e as usize == epoch && k == key)
            .map(|(_, _, a)| *a)
            .or_else(|| db.errors.get(key).copied())
    };
    let no_data = || -> Vec<u8> {
        if db.empty_as_c {
            b"C\n".to_vec()
        } else {
            b"D\n".to_vec()
        }
    };
    let err = |a: Answer| -> Option<Vec<u8>> {
        match a {
            Answer::Data => None,
            Answer::NotFound => Some(b"D\n".to_vec()),
            Answer::NotUnique => Some(b"E\n".to_vec()),
            Answer::Other => Some(format!("F {}\n", db.f_message()).into_bytes()),
        }
    };
    if line == "!!" {
        return None;
    }
    if line.starts_with("!n") || line.starts_with("!t") {
        return Some(b"C\n".to_vec());
    }
    if let Some(arg) = line.strip_prefix("!i") {
        let name = arg.strip_suffix(",1").unwrap_or(arg).to_ascii_uppercase();
        if let Some(e) = injected(&name).and_then(err) {
            return Some(e);
        }
        if !arg.ends_with(",1") {
            // without the recursion flag IRRd returns the members attribute as registered:
            // nested set names are not expanded
            let words: Option<Vec<String>> = db.as_sets.get(&name).cloned().or_else(|| {
                db.route_sets.get(&name).map(|members| {
                    members
                        .iter()
                        .map(|m| match m {
                            RsMember::Prefix(p, op) => format!("{p}{}", op.text()),
                            RsMember::Set(n, op) => format!("{n}{}", op.text()),
                        })
                        .collect()
                })
            });
            return Some(match words {
                Some(w) if !w.is_empty() => data_response(&w.join(" ")),
                Some(_) => no_data(),
                None => b"D\n".to_vec(),
            });
        }
        if let Some(members) = db.as_set_members(&name) {
            if members.is_empty() {
                return Some(no_data());
            }
            let words: Vec<String> = members.iter().map(|n| format!("AS{n}")).collect();
            return Some(data_response(&words.join(" ")));
        }
        if let Some(members) = db.route_set_members(&name) {
            if members.is_empty() {
                return Some(no_data());
            }
            let words: Vec<String> = members
                .iter()
                .map(|(p, op)| format!("{}{}", p.to_string(), op.text()))
                .collect();
            return Some(data_response(&words.join(" ")));
        }
        return Some(b"D\n".to_vec());
    }
    for (cmd, v6) in [("!g", false), ("!6", true)] {
        if let Some(arg) = line.strip_prefix(cmd) {
            let key = format!("{}/{}", arg.to_ascii_uppercase(), if v6 { "6" } else { "g" });
            if let Some(e) = injected(&key).and_then(err) {
                return Some(e);
            }
            let num = arg
                .to_ascii_uppercase()
                .strip_prefix("AS")
                .and_then(|s| s.parse::<u32>().ok());
            let routes = num.and_then(|n| db.routes.get(&n)).map(|(a, b)| if v6 { b } else { a });
            return Some(match routes {
                Some(r) if !r.is_empty() => data_response(&r.join(" ")),
                _ => no_data(),
            });
        }
    }
    if let Some(arg) = line.strip_prefix("!mfilter-set,") {
        let name = arg.to_ascii_uppercase();
        if let Some(e) = injected(&name).and_then(err) {
            return Some(e);
        }
        return Some(match db.filter_sets.get(&name) {
            Some(exprs) if !exprs.is_empty() => {
                let objs: Vec<String> = exprs
                    .iter()
                    .enumerate()
                    .map(|(i, e)| {
                        let attr = if db.legacy_filter_sets.contains(&name) { "filter:   " } else { "mp-filter:" };
                        format!(
                            "filter-set:     {}\ndescr:          generated\n{attr}      {e}\ntech-c:         DUMMY-TEST\nadmin-c:        DUMMY-TEST\nmnt-by:         MAINT-TEST\nchanged:        test@example.net 20240101\nsource:         SRC{i}",
                            arg
                        )
                    })
                    .collect();
                data_response(&objs.join("\n\n"))
            }
            _ => b"D\n".to_vec(),
        });
    }
    Some(b"F unsupported query\n".to_vec())
}

fn serve(
    stream: TcpStream,
    db: &Db,
    log: &Mutex<Vec<String>>,
    chunk: usize,
    epoch: &std::sync::atomic::AtomicUsize,
) {
    let Ok(mut out) = stream.try_clone() else {
        return;
    };
    let _ = out.set_nodelay(true);
    let reader = BufReader::new(stream);
    let mut peer_closed_first = true;
    for line in reader.lines() {
        let Ok(line) = line else { break };
        let line = line.trim_end().to_string();
        if line == "!q" {
            peer_closed_first = false;
            break;
        }
        log.lock().unwrap().push(line.clone());
        if let Some(resp) = answer(db, &line, epoch.load(Ordering::SeqCst)) {
            let ok = if chunk == 0 {
                out.write_all(&resp).is_ok()
            } else {
                resp.chunks(chunk).all(|c| {
                    let r = out.write_all(c).is_ok() && out.flush().is_ok();
                    r
                })
            };
            if !ok {
                break;
            }
        }
    }
    if peer_closed_first {
        // the client has closed (or died): answer its FIN with a reset so that neither side keeps
        // a TIME_WAIT socket (the checks open tens of thousands of connections)
        use std::os::fd::AsRawFd;
        let l = libc::linger { l_onoff: 1, l_linger: 0 };
        // SAFETY: plain setsockopt on a socket this function owns
        unsafe {
            libc::setsockopt(
                out.as_raw_fd(),
                libc::SOL_SOCKET,
                libc::SO_LINGER,
                std::ptr::addr_of!(l).cast(),
                std::mem::size_of::<libc::linger>() as libc::socklen_t,
            );
        }
    }
}

// ------------------------------------------------------------------ expressions and the oracle

#[derive(Debug, Clone, PartialEq, Eq, Hash, Serialize, Deserialize)]
pub enum Expr {
    Any,
    /// AS number
    As(u32, Op),
    AsSet(String, Op),
    RouteSet(String, Op),
    FilterSet(String),
    /// `{ p^op, ... }^op`
    Literal(Vec<(String, Op)>, Op),
    And(Box<Expr>, Box<Expr>),
    Or(Box<Expr>, Box<Expr>),
    Not(Box<Expr>),
}

impl Expr {
    pub fn text(&self) -> String {
        match self {
            Expr::Any => "ANY".into(),
            Expr::As(n, op) => format!("AS{n}{}", op.text()),
            Expr::AsSet(n, op) => format!("{n}{}", op.text()),
            Expr::RouteSet(n, op) => format!("{n}{}", op.text()),
            Expr::FilterSet(n) => n.clone(),
            Expr::Literal(ps, op) => format!(
                "{{{}}}{}",
                ps.iter()
                    .map(|(p, o)| format!("{p}{}", o.text()))
                    .collect::<Vec<_>>()
                    .join(", "),
                op.text()
            ),
            Expr::And(a, b) => format!("({} AND {})", a.text(), b.text()),
            Expr::Or(a, b) => format!("({} OR {})", a.text(), b.text()),
            Expr::Not(a) => format!("(NOT {})", a.text()),
        }
    }

    pub fn names(&self, out: &mut Vec<String>) {
        match self {
            Expr::Any | Expr::Literal(..) => {}
            Expr::As(n, _) => out.push(format!("AS{n}")),
            Expr::AsSet(n, _) | Expr::RouteSet(n, _) | Expr::FilterSet(n) => out.push(n.clone()),
            Expr::And(a, b) | Expr::Or(a, b) => {
                a.names(out);
                b.names(out);
            }
            Expr::Not(a) => a.names(out),
        }
    }

    pub fn op_lengths(&self, out: &mut BTreeSet<u8>) {
        match self {
            Expr::Any | Expr::FilterSet(_) => {}
            Expr::As(_, op) | Expr::AsSet(_, op) | Expr::RouteSet(_, op) => op.lengths(out),
            Expr::Literal(ps, op) => {
                op.lengths(out);
                for (_, o) in ps {
                    o.lengths(out);
                }
            }
            Expr::And(a, b) | Expr::Or(a, b) => {
                a.op_lengths(out);
                b.op_lengths(out);
            }
            Expr::Not(a) => a.op_lengths(out),
        }
    }

    pub fn literal_prefixes(&self, out: &mut Vec<Pfx>) {
        match self {
            Expr::Literal(ps, _) => {
                for (p, _) in ps {
                    if let Some(p) = Pfx::parse(p) {
                        out.push(p);
                    }
                }
            }
            Expr::And(a, b) | Expr::Or(a, b) => {
                a.literal_prefixes(out);
                b.literal_prefixes(out);
            }
            Expr::Not(a) => a.literal_prefixes(out),
            _ => {}
        }
    }
}

/// Evaluation outcome the oracle expects.
#[derive(Debug, Clone, PartialEq, Eq)]
pub enum Expect {
    /// the evaluation must fail (an as-set whose members query is answered with an error)
    Fails(String),
    Set,
}

pub struct Oracle<'a> {
    pub db: &'a Db,
    /// filter-set expressions parsed by the harness (name -> expression), acyclic
    pub filter_exprs: &'a BTreeMap<String, Expr>,
    /// AS -> set of originated prefixes (errored queries removed)
    routes: BTreeMap<u32, std::collections::HashSet<Pfx>>,
    as_members: BTreeMap<String, BTreeSet<u32>>,
    rs_members: BTreeMap<String, Vec<(Pfx, Op)>>,
}

impl<'a> Oracle<'a> {
    pub fn new(db: &'a Db, filter_exprs: &'a BTreeMap<String, Expr>) -> Self {
        let bad = |k: String| {
            matches!(
                db.errors.get(&k),
                Some(Answer::NotFound | Answer::NotUnique | Answer::Other)
            )
        };
        let mut routes = BTreeMap::new();
        for (asn, (v4, v6)) in &db.routes {
            let mut set = std::collections::HashSet::new();
            if !bad(format!("AS{asn}/g")) {
                set.extend(v4.iter().filter_map(|s| Pfx::parse(s)));
            }
            if !bad(format!("AS{asn}/6")) {
                set.extend(v6.iter().filter_map(|s| Pfx::parse(s)));
            }
            routes.insert(*asn, set);
        }
        let as_members = db
            .as_sets
            .keys()
            .filter_map(|k| db.as_set_members(k).map(|m| (k.clone(), m)))
            .collect();
        let rs_members = db
            .route_sets
            .keys()
            .filter(|k| !bad((*k).clone()))
            .filter_map(|k| db.route_set_members(k).map(|m| (k.clone(), m)))
            .collect();
        Self {
            db,
            filter_exprs,
            routes,
            as_members,
            rs_members,
        }
    }

    /// the same oracle, except that route-set members that carry a range operator are dropped
    /// (used to attribute a disagreement to the listed known finding, never to pass a case)
    pub fn without_route_set_members_with_operator(mut self) -> Self {
        for ms in self.rs_members.values_mut() {
            ms.retain(|(_, op)| *op == Op::None);
        }
        self
    }

    /// does the evaluation have to fail? (unknown as-set or error response to an as-set members
    /// query; everything else is sunk per item by design)
    pub fn expect(&self, e: &Expr) -> Expect {
        match e {
            Expr::AsSet(n, _) => {
                let key = n.to_ascii_uppercase();
                match self.db.errors.get(&key) {
                    Some(Answer::NotFound | Answer::NotUnique | Answer::Other) => {
                        Expect::Fails(format!("error response to the members query of {n}"))
                    }
                    _ => match self.db.as_set_members(&key) {
                        None => Expect::Fails(format!("as-set {n} unknown")),
                        Some(m) if m.is_empty() && !self.db.empty_as_c => {
                            // an existing but empty as-set answered `D` by an IRRd 4
                            Expect::Fails(format!("as-set {n} is empty and the server answers D"))
                        }
                        Some(_) => Expect::Set,
                    },
                }
            }
            Expr::FilterSet(n) => match self.filter_exprs.get(&n.to_ascii_uppercase()) {
                Some(inner) => self.expect(inner),
                None => Expect::Set,
            },
            Expr::And(a, b) | Expr::Or(a, b) => match self.expect(a) {
                Expect::Set => self.expect(b),
                f => f,
            },
            Expr::Not(a) => self.expect(a),
            _ => Expect::Set,
        }
    }

    fn routes_of(&self, asn: u32, p: &Pfx) -> bool {
        self.routes.get(&asn).is_some_and(|s| s.contains(p))
    }

    /// candidates q (less specifics or equal of p) that may be members, given the operator
    fn candidates(p: &Pfx, op: Op) -> Vec<Pfx> {
        if op == Op::None {
            vec![*p]
        } else {
            ancestors(p)
        }
    }

    /// is prefix `p` a member of the set the expression denotes?
    pub fn contains(&self, e: &Expr, p: &Pfx) -> bool {
        match e {
            Expr::Any => true,
            Expr::As(n, op) => Self::candidates(p, *op)
                .iter()
                .any(|q| op.admits(q.len, p.len) && self.routes_of(*n, q)),
            Expr::AsSet(n, op) => self
                .as_members
                .get(&n.to_ascii_uppercase())
                .is_some_and(|ms| {
                    Self::candidates(p, *op).iter().any(|q| {
                        op.admits(q.len, p.len) && ms.iter().any(|asn| self.routes_of(*asn, q))
                    })
                }),
            Expr::RouteSet(n, op) => {
                let Some(members) = self.rs_members.get(&n.to_ascii_uppercase()) else {
                    return false;
                };
                let in_members = |q: &Pfx| {
                    members
                        .iter()
                        .any(|(base, mop)| base.covers(q) && mop.admits(base.len, q.len))
                };
                Self::candidates(p, *op)
                    .iter()
                    .any(|q| op.admits(q.len, p.len) && in_members(q))
            }
            Expr::FilterSet(n) => match self.filter_exprs.get(&n.to_ascii_uppercase()) {
                Some(inner)
                    if !matches!(
                        self.db.errors.get(&n.to_ascii_uppercase()),
                        Some(Answer::NotFound | Answer::NotUnique | Answer::Other)
                    ) =>
                {
                    self.contains(inner, p)
                }
                // unknown filter-set: the library's documented default is `NOT ANY`
                _ => false,
            },
            Expr::Literal(ps, op) => {
                let parsed: Vec<(Pfx, Op)> = ps
                    .iter()
                    .filter_map(|(s, mop)| Pfx::parse(s).map(|b| (b, *mop)))
                    .filter(|(b, _)| b.v6 == p.v6)
                    .collect();
                let in_members = |q: &Pfx| {
                    parsed
                        .iter()
                        .any(|(base, mop)| base.covers(q) && mop.admits(base.len, q.len))
                };
                Self::candidates(p, *op)
                    .iter()
                    .any(|q| op.admits(q.len, p.len) && in_members(q))
            }
            Expr::And(a, b) => self.contains(a, p) && self.contains(b, p),
            Expr::Or(a, b) => self.contains(a, p) || self.contains(b, p),
            Expr::Not(a) => !self.contains(a, p),
        }
    }
}

/// `p` and all its less specifics
fn ancestors(p: &Pfx) -> Vec<Pfx> {
    (0..=p.len)
        .map(|l| Pfx {
            v6: p.v6,
            bits: mask(p.bits, l),
            len: l,
        })
        .collect()
}

/// One representative prefix for every non-empty class (deepest covering anchor, length): a
/// prefix of that length under the anchor that is not covered by any deeper anchor.
pub fn class_representatives(anchors: &BTreeSet<Pfx>, lengths: &BTreeSet<u8>) -> Vec<Pfx> {
    let mut reps = Vec::new();
    for v6 in [false, true] {
        let max = if v6 { 128u8 } else { 32 };
        // membership is piecewise constant in the length between these break points
        let mut lens: BTreeSet<u8> = BTreeSet::new();
        for l in lengths
            .iter()
            .copied()
            .chain(anchors.iter().filter(|a| a.v6 == v6).map(|a| a.len))
            .chain([0, max])
        {
            for d in [-1i16, 0, 1] {
                let x = l as i16 + d;
                if x >= 0 && x <= max as i16 {
                    lens.insert(x as u8);
                }
            }
        }
        let mut fam: BTreeSet<Pfx> = anchors.iter().filter(|a| a.v6 == v6).copied().collect();
        fam.insert(Pfx {
            v6,
            bits: 0,
            len: 0,
        });
        for a in &fam {
            // anchors strictly inside a
            let inner: Vec<Pfx> = fam
                .iter()
                .filter(|b| **b != *a && a.covers(b))
                .copied()
                .collect();
            for l in lens.iter().copied().filter(|l| *l >= a.len) {
                if let Some(p) = find_rep(*a, l, &inner) {
                    reps.push(p);
                }
            }
        }
    }
    reps
}

fn find_rep(cur: Pfx, target: u8, inner: &[Pfx]) -> Option<Pfx> {
    if cur.len == target {
        return Some(cur);
    }
    // anchors still inside cur
    let here: Vec<Pfx> = inner.iter().filter(|b| cur.covers(b)).copied().collect();
    if here.is_empty() {
        // free: alternate bits to stay away from trivial all-zero / all-one patterns
        let mut p = cur;
        while p.len < target {
            let bit = p.len % 2 == 1;
            p = p.extend(p.len + 1, bit);
        }
        return Some(p);
    }
    for bit in [false, true] {
        let child = cur.extend(cur.len + 1, bit);
        if here.iter().any(|b| *b == child) {
            continue; // entering a deeper anchor
        }
        if let Some(p) = find_rep(child, target, &here) {
            return Some(p);
        }
    }
    None
}

/// Compare the oracle's set with a list of ranges; returns a witness prefix on disagreement.
pub fn compare(
    oracle: &Oracle<'_>,
    expr: &Expr,
    output: &[PRange],
    extra_anchors: &[Pfx],
) -> Result<usize, (Pfx, bool)> {
    let mut anchors: BTreeSet<Pfx> = oracle.db.all_prefixes().into_iter().collect();
    let mut lits = Vec::new();
    expr.literal_prefixes(&mut lits);
    for fe in oracle.filter_exprs.values() {
        fe.literal_prefixes(&mut lits);
    }
    anchors.extend(lits);
    anchors.extend(output.iter().map(|r| r.base));
    anchors.extend(extra_anchors.iter().copied());
    let mut lengths: BTreeSet<u8> = BTreeSet::new();
    expr.op_lengths(&mut lengths);
    for fe in oracle.filter_exprs.values() {
        fe.op_lengths(&mut lengths);
    }
    for ms in oracle.db.route_sets.values() {
        for m in ms {
            match m {
                RsMember::Prefix(_, op) | RsMember::Set(_, op) => op.lengths(&mut lengths),
            }
        }
    }
    for r in output {
        lengths.insert(r.lo);
        lengths.insert(r.hi);
    }
    let reps = class_representatives(&anchors, &lengths);
    for p in &reps {
        let want = oracle.contains(expr, p);
        let got = output.iter().any(|r| r.contains(p));
        if want != got {
            return Err((*p, want));
        }
    }
    Ok(reps.len())
}

/// parse one line / Display rendering of a prefix range as the library prints it
pub fn parse_range_display(s: &str) -> Option<PRange> {
    let s = s.trim();
    // forms: "10.0.0.0/8" | "10.0.0.0/8^16-24" | "10.0.0.0/8^+" | "10.0.0.0/8^-" | "10.0.0.0/8^24"
    // and the comma form "10.0.0.0/8,16,24"
    if let Some(r) = PRange::from_plain(s) {
        if s.matches(',').count() == 2 {
            return Some(r);
        }
    }
    let (p, op) = match s.split_once('^') {
        Some((p, op)) => (p, Some(op)),
        None => (s, None),
    };
    let base = Pfx::parse(p)?;
    let max = base.max_len();
    let (lo, hi) = match op {
        None => (base.len, base.len),
        Some("+") => (base.len, max),
        Some("-") => (base.len + 1, max),
        Some(o) => match o.split_once('-') {
            Some((a, b)) => (a.parse().ok()?, b.parse().ok()?),
            None => {
                let n: u8 = o.parse().ok()?;
                (n, n)
            }
        },
    };
    Some(PRange { base, lo, hi })
}

#[cfg(test)]
mod tests {
    use super::*;

    fn lit(s: &str, op: Op) -> Expr {
        Expr::Literal(vec![(s.to_string(), Op::None)], op)
    }

    #[test]
    fn rfc2622_examples() {
        // RFC 2622 section 2, address prefix range examples
        let db = Db::default();
        let fe = BTreeMap::new();
        let o = Oracle::new(&db, &fe);
        let p = |s: &str| Pfx::parse(s).unwrap();
        // 128.9.0.0/16^- : more specifics excluding the prefix itself
        let e = lit("128.9.0.0/16", Op::Less);
        assert!(!o.contains(&e, &p("128.9.0.0/16")));
        assert!(o.contains(&e, &p("128.9.0.0/17")));
        assert!(o.contains(&e, &p("128.9.255.255/32")));
        // 5.0.0.0/8^+
        let e = lit("5.0.0.0/8", Op::LessEq);
        assert!(o.contains(&e, &p("5.0.0.0/8")));
        assert!(o.contains(&e, &p("5.1.0.0/16")));
        assert!(!o.contains(&e, &p("4.0.0.0/8")));
        // 30.0.0.0/8^16
        let e = lit("30.0.0.0/8", Op::Exact(16));
        assert!(o.contains(&e, &p("30.9.0.0/16")));
        assert!(!o.contains(&e, &p("30.0.0.0/8")));
        assert!(!o.contains(&e, &p("30.9.9.0/24")));
        // 30.0.0.0/8^24-32
        let e = lit("30.0.0.0/8", Op::Range(24, 32));
        assert!(o.contains(&e, &p("30.1.2.0/24")));
        assert!(o.contains(&e, &p("30.1.2.3/32")));
        assert!(!o.contains(&e, &p("30.1.0.0/16")));
        // {128.9.0.0/16^+}^- == {128.9.0.0/16^17-32}? per RFC: exclusive more specifics of members
        let e = Expr::Literal(vec![("128.9.0.0/16".into(), Op::LessEq)], Op::Less);
        assert!(!o.contains(&e, &p("128.9.0.0/16")));
        assert!(o.contains(&e, &p("128.9.0.0/17")));
        // {128.9.0.0/16^24-32}^+ ... distributes: ^24-32
        let e = Expr::Literal(vec![("128.9.0.0/16".into(), Op::Range(20, 24))], Op::Range(22, 28));
        assert!(!o.contains(&e, &p("128.9.0.0/21")));
        assert!(o.contains(&e, &p("128.9.0.0/22")));
        assert!(o.contains(&e, &p("128.9.1.0/28")));
        assert!(!o.contains(&e, &p("128.9.1.0/29")));
    }

    #[test]
    fn representatives_avoid_deeper_anchors() {
        let anchors: BTreeSet<Pfx> = ["10.0.0.0/8", "10.0.0.0/9", "10.128.0.0/9"]
            .iter()
            .map(|s| Pfx::parse(s).unwrap())
            .collect();
        let reps = class_representatives(&anchors, &BTreeSet::new());
        let ten = Pfx::parse("10.0.0.0/8").unwrap();
        // class (10/8, len 9) is empty: both /9 children are anchors
        assert!(!reps.iter().any(|r| {
            ten.covers(r)
                && r.len == 9
                && !anchors.iter().any(|a| *a != ten && a.covers(r))
        }));
        assert!(reps.contains(&ten));
    }
}
