//! Engine D — a single-threaded executor in which the schedule is a generated value.
//!
//! Tasks are plain futures. Wakers are honoured: only a task that has been woken (or never
//! polled) is runnable. At every step the next action is picked from the enabled set by the next
//! element of the generated schedule; when the schedule is exhausted the world is drained fairly.
//! Quiescence (nothing enabled) with an unresolved future is a deterministic "waits forever"
//! verdict — no timers involved.

use std::{
    cell::RefCell,
    future::Future,
    pin::Pin,
    rc::Rc,
    sync::{
        atomic::{AtomicBool, Ordering},
        Arc,
    },
    task::{Context, Poll, Wake, Waker},
};

use crate::mem::CURRENT_TASK;

pub struct TaskSlot {
    pub fut: Option<Pin<Box<dyn Future<Output = ()>>>>,
    pub woken: Arc<Woken>,
    pub polls: u32,
    pub done: bool,
    pub label: String,
}

pub struct Woken(AtomicBool);

impl Wake for Woken {
    fn wake(self: Arc<Self>) {
        self.0.store(true, Ordering::SeqCst);
    }
    fn wake_by_ref(self: &Arc<Self>) {
        self.0.store(true, Ordering::SeqCst);
    }
}

#[derive(Default)]
pub struct Exec {
    pub tasks: Vec<TaskSlot>,
}

impl Exec {
    pub fn spawn(&mut self, label: &str, fut: Pin<Box<dyn Future<Output = ()>>>) -> usize {
        self.tasks.push(TaskSlot {
            fut: Some(fut),
            woken: Arc::new(Woken(AtomicBool::new(true))),
            polls: 0,
            done: false,
            label: label.to_string(),
        });
        self.tasks.len() - 1
    }

    pub fn runnable(&self) -> Vec<usize> {
        self.tasks
            .iter()
            .enumerate()
            .filter(|(_, t)| !t.done && t.fut.is_some() && t.woken.0.load(Ordering::SeqCst))
            .map(|(i, _)| i)
            .collect()
    }

    /// poll task `i` once; returns true if it completed
    pub fn poll(&mut self, i: usize) -> bool {
        let t = &mut self.tasks[i];
        let Some(fut) = t.fut.as_mut() else {
            return false;
        };
        t.woken.0.store(false, Ordering::SeqCst);
        t.polls += 1;
        let waker = Waker::from(t.woken.clone());
        let mut cx = Context::from_waker(&waker);
        CURRENT_TASK.with(|c| c.set(i));
        let r = fut.as_mut().poll(&mut cx);
        CURRENT_TASK.with(|c| c.set(usize::MAX));
        if r.is_ready() {
            t.done = true;
            t.fut = None;
            true
        } else {
            false
        }
    }

    /// drop the future of task `i` at its current suspension point
    pub fn cancel(&mut self, i: usize) {
        let t = &mut self.tasks[i];
        t.fut = None;
        t.done = true;
    }

    pub fn all_done(&self) -> bool {
        self.tasks.iter().all(|t| t.done)
    }
}

/// A flag a task can wait on (used to start a later phase from the executor).
#[derive(Clone, Default)]
pub struct Gate {
    inner: Rc<RefCell<(bool, Option<Waker>)>>,
}

impl Gate {
    pub fn open(&self) {
        let w = {
            let mut g = self.inner.borrow_mut();
            g.0 = true;
            g.1.take()
        };
        if let Some(w) = w {
            w.wake();
        }
    }
    pub fn wait(&self) -> impl Future<Output = ()> + '_ {
        std::future::poll_fn(move |cx| {
            let mut g = self.inner.borrow_mut();
            if g.0 {
                Poll::Ready(())
            } else {
                g.1 = Some(cx.waker().clone());
                Poll::Pending
            }
        })
    }
}
