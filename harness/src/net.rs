//! Engine E — real transports on loopback: a tokio-rustls server, a russh server and the
//! `fake_cli` child process, each driven by a `script::Script`; plus the client-side helpers that
//! establish a real `Session<Tls>` / `Session<Ssh>` / `Session<JunosLocal>` against them.

use std::{
    io::BufReader,
    path::{Path, PathBuf},
    sync::{Arc, Mutex},
    time::Duration,
};

use async_trait::async_trait;
use rustls_pki_types::{CertificateDer, PrivateKeyDer};
use tokio::{
    io::{AsyncReadExt, AsyncWriteExt},
    net::{TcpListener, TcpStream},
    sync::mpsc,
};
use tokio_rustls::{
    rustls::{server::WebPkiClientVerifier, RootCertStore, ServerConfig},
    TlsAcceptor,
};

use crate::script::{run_script, Marks, PeerIo, Script};

pub fn pki_dir() -> PathBuf {
    crate::core::verif_root().join("pki")
}

pub fn read_certs(path: &Path) -> Vec<CertificateDer<'static>> {
    let f = std::fs::File::open(path).unwrap_or_else(|e| panic!("{}: {e}", path.display()));
    rustls_pemfile::certs(&mut BufReader::new(f))
        .collect::<Result<Vec<_>, _>>()
        .unwrap_or_default()
}

pub fn read_key(path: &Path) -> Option<PrivateKeyDer<'static>> {
    let f = std::fs::File::open(path).ok()?;
    rustls_pemfile::private_key(&mut BufReader::new(f)).ok()?
}

#[derive(Debug, Clone, Copy, PartialEq, Eq, serde::Serialize, serde::Deserialize)]
pub enum PreClose {
    None,
    /// close right after the TCP accept
    AfterAccept { abrupt: bool },
    /// read a little of the client's first flight, then close
    DuringHandshake { abrupt: bool },
}

/// A loopback listener on a port *below* the kernel's ephemeral range (32768..). The checks open
/// tens of thousands of short connections; their TIME_WAIT remnants sit on ephemeral ports and
/// made `bind(127.0.0.1:0)` fail with EADDRINUSE once (a harness problem, not the code's). Ports
/// are taken from 12000..32000, starting at a per-process offset and skipping busy ones.
pub fn bind_local_std() -> std::io::Result<std::net::TcpListener> {
    use std::sync::atomic::{AtomicUsize, Ordering};
    static NEXT: AtomicUsize = AtomicUsize::new(0);
    const BASE: usize = 12_000;
    const SPAN: usize = 20_000;
    let start = (std::process::id() as usize).wrapping_mul(7919);
    let mut last = std::io::Error::from(std::io::ErrorKind::AddrInUse);
    for _ in 0..SPAN {
        let k = NEXT.fetch_add(1, Ordering::Relaxed);
        let port = BASE + (start + k) % SPAN;
        match std::net::TcpListener::bind(("127.0.0.1", port as u16)) {
            Ok(l) => return Ok(l),
            Err(e) => last = e,
        }
    }
    // as a last resort let the kernel choose
    std::net::TcpListener::bind("127.0.0.1:0").map_err(|_| last)
}

/// the same for tokio (must be called inside a runtime)
pub fn bind_local() -> std::io::Result<TcpListener> {
    let l = bind_local_std()?;
    l.set_nonblocking(true)?;
    TcpListener::from_std(l)
}

fn abort_tcp(stream: &TcpStream) {
    // SO_LINGER 0: the close sends RST instead of FIN
    let _ = stream.set_linger(Some(Duration::ZERO));
}

// ------------------------------------------------------------------ TLS

pub struct TlsPeer {
    stream: Option<tokio_rustls::server::TlsStream<TcpStream>>,
}

#[async_trait]
impl PeerIo for TlsPeer {
    async fn write_unit(&mut self, data: &[u8]) -> std::io::Result<()> {
        let s = self.stream.as_mut().ok_or(std::io::ErrorKind::NotConnected)?;
        s.write_all(data).await?;
        s.flush().await
    }
    async fn read_some(&mut self) -> std::io::Result<Vec<u8>> {
        let s = self.stream.as_mut().ok_or(std::io::ErrorKind::NotConnected)?;
        let mut buf = vec![0u8; 16 * 1024];
        let n = s.read(&mut buf).await?;
        buf.truncate(n);
        Ok(buf)
    }
    async fn close(&mut self, abrupt: bool) {
        if let Some(mut s) = self.stream.take() {
            if abrupt {
                abort_tcp(s.get_ref().0);
                drop(s);
            } else {
                let _ = s.shutdown().await;
                drop(s);
            }
        }
    }
    async fn half_close(&mut self) {
        if let Some(s) = self.stream.as_mut() {
            // close_notify alert only; the TCP connection stays open in both directions
            s.get_mut().1.send_close_notify();
            let _ = s.flush().await;
        }
    }
}

pub fn tls_acceptor(server_cert: &str, server_key: &str) -> TlsAcceptor {
    let dir = pki_dir();
    let certs = read_certs(&dir.join(server_cert));
    let key = read_key(&dir.join(server_key)).expect("server key");
    let mut roots = RootCertStore::empty();
    for c in read_certs(&dir.join("ca.crt")) {
        roots.add(c).expect("ca");
    }
    let verifier = WebPkiClientVerifier::builder(Arc::new(roots))
        .build()
        .expect("client verifier");
    let config = ServerConfig::builder()
        .with_client_cert_verifier(verifier)
        .with_single_cert(certs, key)
        .expect("server config");
    TlsAcceptor::from(Arc::new(config))
}

/// accept one connection and run the script on it
pub async fn tls_server(
    listener: TcpListener,
    acceptor: TlsAcceptor,
    script: Script,
    pre: PreClose,
) -> Marks {
    let (mut tcp, _) = match listener.accept().await {
        Ok(x) => x,
        Err(e) => {
            return Marks {
                error: Some(format!("accept: {e}")),
                ..Marks::default()
            }
        }
    };
    let _ = tcp.set_nodelay(true);
    match pre {
        PreClose::AfterAccept { abrupt } => {
            if abrupt {
                abort_tcp(&tcp);
            }
            drop(tcp);
            return Marks::default();
        }
        PreClose::DuringHandshake { abrupt } => {
            let mut b = [0u8; 16];
            let _ = tcp.read(&mut b).await;
            if abrupt {
                abort_tcp(&tcp);
            } else {
                let _ = tcp.shutdown().await;
            }
            drop(tcp);
            return Marks::default();
        }
        PreClose::None => {}
    }
    let stream = match acceptor.accept(tcp).await {
        Ok(s) => s,
        Err(e) => {
            return Marks {
                error: Some(format!("tls accept: {e}")),
                ..Marks::default()
            }
        }
    };
    let mut peer = TlsPeer {
        stream: Some(stream),
    };
    let marks = run_script(&mut peer, &script).await;
    // end of script without an explicit close: keep the connection until the client goes away
    if let Some(mut s) = peer.stream.take() {
        let mut b = [0u8; 1024];
        let _ = tokio::time::timeout(Duration::from_secs(5), async {
            while let Ok(n) = s.read(&mut b).await {
                if n == 0 {
                    break;
                }
            }
        })
        .await;
    }
    marks
}

// ------------------------------------------------------------------ SSH

pub struct SshPeer {
    handle: russh::server::Handle,
    channel: russh::ChannelId,
    rx: mpsc::UnboundedReceiver<Vec<u8>>,
    /// a second handle on the TCP socket, to tear the connection down under the SSH session
    killer: std::net::TcpStream,
    closed: bool,
}

#[async_trait]
impl PeerIo for SshPeer {
    async fn write_unit(&mut self, data: &[u8]) -> std::io::Result<()> {
        self.handle
            .data(self.channel, russh::CryptoVec::from(data.to_vec()))
            .await
            .map_err(|_| std::io::Error::from(std::io::ErrorKind::BrokenPipe))
    }
    async fn read_some(&mut self) -> std::io::Result<Vec<u8>> {
        Ok(self.rx.recv().await.unwrap_or_default())
    }
    async fn close(&mut self, abrupt: bool) {
        self.closed = true;
        if abrupt {
            // tear the TCP connection down under the SSH session (no SSH disconnect, no channel
            // EOF/close): the peer just sees the connection go away
            let _ = self.killer.shutdown(std::net::Shutdown::Both);
        } else {
            let _ = self.handle.eof(self.channel).await;
            let _ = self.handle.close(self.channel).await;
        }
    }
    async fn half_close(&mut self) {
        // SSH_MSG_CHANNEL_EOF only (RFC 4254 5.3: the channel remains open)
        let _ = self.handle.eof(self.channel).await;
    }
}

enum SshEvent {
    Subsystem(russh::ChannelId),
    Data(Vec<u8>),
    Eof,
}

struct SshHandler {
    tx: mpsc::UnboundedSender<SshEvent>,
    password: String,
    seen: Arc<Mutex<Vec<String>>>,
}

#[async_trait]
impl russh::server::Handler for SshHandler {
    type Error = russh::Error;

    async fn auth_password(
        self,
        user: &str,
        password: &str,
    ) -> Result<(Self, russh::server::Auth), Self::Error> {
        self.seen.lock().unwrap().push(user.to_string());
        let ok = password == self.password;
        Ok((
            self,
            if ok {
                russh::server::Auth::Accept
            } else {
                russh::server::Auth::Reject {
                    proceed_with_methods: None,
                }
            },
        ))
    }

    async fn channel_open_session(
        self,
        _channel: russh::Channel<russh::server::Msg>,
        session: russh::server::Session,
    ) -> Result<(Self, bool, russh::server::Session), Self::Error> {
        Ok((self, true, session))
    }

    async fn subsystem_request(
        self,
        channel: russh::ChannelId,
        name: &str,
        mut session: russh::server::Session,
    ) -> Result<(Self, russh::server::Session), Self::Error> {
        if name == "netconf" {
            session.channel_success(channel);
            let _ = self.tx.send(SshEvent::Subsystem(channel));
        } else {
            session.channel_failure(channel);
        }
        Ok((self, session))
    }

    async fn data(
        self,
        _channel: russh::ChannelId,
        data: &[u8],
        session: russh::server::Session,
    ) -> Result<(Self, russh::server::Session), Self::Error> {
        let _ = self.tx.send(SshEvent::Data(data.to_vec()));
        Ok((self, session))
    }

    async fn channel_eof(
        self,
        _channel: russh::ChannelId,
        session: russh::server::Session,
    ) -> Result<(Self, russh::server::Session), Self::Error> {
        let _ = self.tx.send(SshEvent::Eof);
        Ok((self, session))
    }
}

pub fn ssh_config() -> Arc<russh::server::Config> {
    let key = russh_keys::key::KeyPair::generate_ed25519().expect("ed25519 key");
    Arc::new(russh::server::Config {
        keys: vec![key],
        auth_rejection_time: Duration::from_millis(10),
        auth_rejection_time_initial: Some(Duration::from_millis(0)),
        ..russh::server::Config::default()
    })
}

pub async fn ssh_server(
    listener: TcpListener,
    config: Arc<russh::server::Config>,
    password: String,
    script: Script,
    pre: PreClose,
) -> Marks {
    let (mut tcp, _) = match listener.accept().await {
        Ok(x) => x,
        Err(e) => {
            return Marks {
                error: Some(format!("accept: {e}")),
                ..Marks::default()
            }
        }
    };
    let _ = tcp.set_nodelay(true);
    match pre {
        PreClose::AfterAccept { abrupt } => {
            if abrupt {
                abort_tcp(&tcp);
            }
            drop(tcp);
            return Marks::default();
        }
        PreClose::DuringHandshake { abrupt } => {
            // let the version exchange begin, then go away
            let _ = tcp.write_all(b"SSH-2.0-verif\r\n").await;
            let mut b = [0u8; 8];
            let _ = tcp.read(&mut b).await;
            if abrupt {
                abort_tcp(&tcp);
            } else {
                let _ = tcp.shutdown().await;
            }
            drop(tcp);
            return Marks::default();
        }
        PreClose::None => {}
    }
    let (tcp, killer) = match tcp.into_std().and_then(|s| {
        let k = s.try_clone()?;
        Ok((TcpStream::from_std(s)?, k))
    }) {
        Ok(x) => x,
        Err(e) => {
            return Marks {
                error: Some(format!("dup: {e}")),
                ..Marks::default()
            }
        }
    };
    let (tx, mut rx) = mpsc::unbounded_channel();
    let handler = SshHandler {
        tx,
        password,
        seen: Arc::new(Mutex::new(Vec::new())),
    };
    let running = match russh::server::run_stream(config, tcp, handler).await {
        Ok(r) => r,
        Err(e) => {
            return Marks {
                error: Some(format!("ssh: {e}")),
                ..Marks::default()
            }
        }
    };
    let handle = running.handle();
    let session_task = tokio::spawn(async move {
        let _ = running.await;
    });
    // wait for the netconf subsystem
    let channel = loop {
        match tokio::time::timeout(Duration::from_secs(10), rx.recv()).await {
            Ok(Some(SshEvent::Subsystem(c))) => break c,
            Ok(Some(_)) => {}
            _ => {
                session_task.abort();
                return Marks {
                    error: Some("no netconf subsystem request".into()),
                    ..Marks::default()
                };
            }
        }
    };
    let (dtx, drx) = mpsc::unbounded_channel();
    let pump = tokio::spawn(async move {
        while let Some(ev) = rx.recv().await {
            match ev {
                SshEvent::Data(d) => {
                    if dtx.send(d).is_err() {
                        break;
                    }
                }
                SshEvent::Eof => {
                    let _ = dtx.send(Vec::new());
                }
                SshEvent::Subsystem(_) => {}
            }
        }
    });
    let mut peer = SshPeer {
        handle,
        channel,
        rx: drx,
        killer,
        closed: false,
    };
    let marks = run_script(&mut peer, &script).await;
    if !peer.closed {
        // keep the connection until the client goes away
        let _ = tokio::time::timeout(Duration::from_secs(5), async {
            loop {
                match peer.rx.recv().await {
                    Some(d) if d.is_empty() => break,
                    None => break,
                    _ => {}
                }
            }
        })
        .await;
    } else {
        // give the close a moment to reach the wire before the task is torn down
        tokio::time::sleep(Duration::from_millis(30)).await;
    }
    session_task.abort();
    pump.abort();
    marks
}

// ------------------------------------------------------------------ local CLI

/// serialises the (process-global) environment hand-over to the spawned `fake_cli`
pub static LOCAL_SPAWN: tokio::sync::Mutex<()> = tokio::sync::Mutex::const_new(());

pub fn fake_cli_path() -> PathBuf {
    let exe = std::env::current_exe().unwrap_or_default();
    exe.parent()
        .map(|p| p.join("fake_cli"))
        .unwrap_or_else(|| PathBuf::from("/verif/target/debug/fake_cli"))
}

pub struct LocalFiles {
    pub script: PathBuf,
    pub marks: PathBuf,
}

/// write the script where the next spawned `fake_cli` will find it
pub fn prepare_local(script: &Script, tag: &str) -> LocalFiles {
    let dir = crate::core::verif_root().join("target").join("fake_cli");
    let _ = std::fs::create_dir_all(&dir);
    let base = format!("{}-{}-{tag}", std::process::id(), crate::script::mono_ns());
    let files = LocalFiles {
        script: dir.join(format!("{base}.script.json")),
        marks: dir.join(format!("{base}.marks.json")),
    };
    let _ = std::fs::write(&files.script, serde_json::to_vec(script).unwrap_or_default());
    files
}

pub fn read_marks(path: &Path) -> Marks {
    for _ in 0..100 {
        if let Ok(t) = std::fs::read(path) {
            if let Ok(m) = serde_json::from_slice::<Marks>(&t) {
                return m;
            }
        }
        std::thread::sleep(Duration::from_millis(10));
    }
    Marks {
        error: Some("no marks file from fake_cli".into()),
        ..Marks::default()
    }
}
