//! Abstract XML trees for *server* messages and a style-driven serialiser.
//!
//! A tree carries only information content (namespace URI + local name, attributes, children,
//! text). A `Style` decides everything XML regards as insignificant: prefix vs default
//! namespace (and the prefix string), inter-element whitespace, whitespace around token-valued
//! text, comments between elements and around the root, attribute order and quote character,
//! an XML declaration, and `<x/>` versus `<x></x>`. One tree rendered in two styles is the
//! metamorphic pair of C13; the canonical style (what the repository's fixtures look like) feeds
//! the other engines.

use proptest::prelude::*;
use serde::{Deserialize, Serialize};

use crate::xmlstrict::{escape_attr, escape_text};

#[derive(Debug, Clone, PartialEq, Eq, Hash, Serialize, Deserialize, PartialOrd, Ord)]
pub enum Ns {
    /// urn:ietf:params:xml:ns:netconf:base:1.0
    Base,
    /// http://xml.juniper.net/xnm/1.1/xnm
    Xnm,
    /// http://yang.juniper.net/junos/jcmd
    Jcmd,
    /// http://xml.juniper.net/junos/23.1R0/junos
    Junos,
    /// no namespace
    None,
    Other(String),
}

impl Ns {
    pub fn uri(&self) -> &str {
        match self {
            Ns::Base => "urn:ietf:params:xml:ns:netconf:base:1.0",
            Ns::Xnm => "http://xml.juniper.net/xnm/1.1/xnm",
            Ns::Jcmd => "http://yang.juniper.net/junos/jcmd",
            Ns::Junos => "http://xml.juniper.net/junos/23.1R0/junos",
            Ns::None => "",
            Ns::Other(u) => u,
        }
    }
    fn default_prefix(&self) -> &str {
        match self {
            Ns::Base => "nc",
            Ns::Xnm => "xnm",
            Ns::Jcmd => "jcmd",
            Ns::Junos => "junos",
            Ns::None => "",
            Ns::Other(_) => "o",
        }
    }
}

#[derive(Debug, Clone, PartialEq, Eq, Hash, Serialize, Deserialize)]
pub struct XAttr {
    pub ns: Ns,
    pub name: String,
    pub value: String,
}

#[derive(Debug, Clone, PartialEq, Eq, Hash, Serialize, Deserialize)]
pub enum XNode {
    E(X),
    /// token-valued text (URIs, numbers, enumeration values): surrounding whitespace is
    /// insignificant
    T(String),
    /// free text: rendered exactly (escaped)
    S(String),
    /// pre-serialised opaque content, copied verbatim (must be well-formed in its context)
    Raw(String),
}

#[derive(Debug, Clone, PartialEq, Eq, Hash, Serialize, Deserialize)]
pub struct X {
    pub ns: Ns,
    pub name: String,
    pub attrs: Vec<XAttr>,
    pub kids: Vec<XNode>,
    /// an element that normally has children (`<rpc-reply>`, `<data>`, `<configuration>`):
    /// when empty, the canonical style writes it as `<x></x>`, as Junos does
    #[serde(default)]
    pub container: bool,
}

impl X {
    pub fn new(ns: Ns, name: &str) -> Self {
        Self {
            ns,
            name: name.to_string(),
            attrs: Vec::new(),
            kids: Vec::new(),
            container: false,
        }
    }
    pub fn container(ns: Ns, name: &str) -> Self {
        Self {
            container: true,
            ..Self::new(ns, name)
        }
    }
    pub fn attr(mut self, name: &str, value: &str) -> Self {
        self.attrs.push(XAttr {
            ns: Ns::None,
            name: name.into(),
            value: value.into(),
        });
        self
    }
    pub fn nsattr(mut self, ns: Ns, name: &str, value: &str) -> Self {
        self.attrs.push(XAttr {
            ns,
            name: name.into(),
            value: value.into(),
        });
        self
    }
    pub fn kid(mut self, k: X) -> Self {
        self.kids.push(XNode::E(k));
        self
    }
    pub fn token(mut self, t: &str) -> Self {
        self.kids.push(XNode::T(t.into()));
        self
    }
    pub fn text(mut self, t: &str) -> Self {
        self.kids.push(XNode::S(t.into()));
        self
    }
    pub fn raw(mut self, t: &str) -> Self {
        self.kids.push(XNode::Raw(t.into()));
        self
    }
    pub fn leaf(ns: Ns, name: &str, token: &str) -> Self {
        Self::new(ns, name).token(token)
    }
    /// local names of all elements of the tree (document order, no duplicates)
    pub fn element_names(&self) -> Vec<String> {
        fn walk(x: &X, out: &mut Vec<String>) {
            if !out.contains(&x.name) {
                out.push(x.name.clone());
            }
            for k in &x.kids {
                if let XNode::E(e) = k {
                    walk(e, out);
                }
            }
        }
        let mut out = Vec::new();
        walk(self, &mut out);
        out
    }
    fn collect_ns(&self, out: &mut Vec<Ns>) {
        if !out.contains(&self.ns) {
            out.push(self.ns.clone());
        }
        for a in &self.attrs {
            if a.ns != Ns::None && !out.contains(&a.ns) {
                out.push(a.ns.clone());
            }
        }
        for k in &self.kids {
            if let XNode::E(e) = k {
                e.collect_ns(out);
            }
        }
    }
}

#[derive(Debug, Clone, PartialEq, Eq, Hash, Serialize, Deserialize)]
pub enum Ws {
    None,
    Spaces(u8),
    NewlineIndent(u8),
    Tab,
    /// CR LF line ends (XML 1.0 2.11: equivalent to LF) followed by an indent
    CrLfIndent(u8),
    /// a lone carriage return
    Cr,
}

impl Ws {
    fn render(&self, depth: usize) -> String {
        match self {
            Ws::None => String::new(),
            Ws::Spaces(n) => " ".repeat((*n).max(1) as usize),
            Ws::NewlineIndent(n) => format!("\n{}", " ".repeat(*n as usize * depth)),
            Ws::Tab => "\t".into(),
            Ws::CrLfIndent(n) => format!("\r\n{}", " ".repeat(*n as usize * depth)),
            Ws::Cr => "\r".into(),
        }
    }
    pub fn is_none(&self) -> bool {
        matches!(self, Ws::None)
    }
}

#[derive(Debug, Clone, PartialEq, Eq, Hash, Serialize, Deserialize)]
pub struct Style {
    /// prefix for the NETCONF base namespace; `None` = declared as default namespace
    pub base_prefix: Option<String>,
    /// prefix for the Junos xnm namespace; `None` = declared as default namespace
    pub xnm_prefix: Option<String>,
    /// whitespace between elements
    pub inter: Ws,
    /// whitespace around token-valued text
    pub token_ws: Ws,
    /// 0 none; 1 comments between child elements; 2 additionally before and after the root
    pub comments: u8,
    pub single_quotes: bool,
    pub reverse_attrs: bool,
    pub xml_decl: bool,
    /// spelling of the XML declaration (when there is one): 0 `version="1.0" encoding="UTF-8"`,
    /// 1 version only, 2 single quotes and `utf-8`, 3 with `standalone="yes"`, 4 `utf-8`,
    /// `standalone='no'` and a space before `?>`, 5 spaces around `=` and `Utf-8`
    #[serde(default)]
    pub decl_form: u8,
    /// empty leaf elements (`<ok/>`, `<reject/>`) as `<x></x>` instead of `<x/>`
    pub expand_empty: bool,
    /// empty container elements (`<rpc-reply>`, `<data>`, `<configuration>`) as `<x/>` instead
    /// of `<x></x>`
    #[serde(default)]
    pub collapse_containers: bool,
    /// whitespace between the root end tag and the delimiter
    pub before_marker: Ws,
    /// when set, the element-level rewrites (empty forms, token whitespace, comments) are applied
    /// only to elements with this local name (used to attribute a failure to one element)
    #[serde(default)]
    pub scope: Option<String>,
}

impl Style {
    /// the style of the repository's fixtures / what Junos emits
    pub fn canonical() -> Self {
        Self {
            base_prefix: None,
            xnm_prefix: None,
            inter: Ws::NewlineIndent(2),
            token_ws: Ws::None,
            comments: 0,
            single_quotes: false,
            reverse_attrs: false,
            xml_decl: false,
            decl_form: 0,
            expand_empty: false,
            collapse_containers: false,
            before_marker: Ws::NewlineIndent(0),
            scope: None,
        }
    }
    pub fn compact() -> Self {
        Self {
            inter: Ws::None,
            before_marker: Ws::None,
            ..Self::canonical()
        }
    }
    /// names of the rewrites in which `self` differs from `other`
    pub fn diff(&self, other: &Style) -> Vec<&'static str> {
        let mut d = Vec::new();
        if self.base_prefix != other.base_prefix {
            d.push("base-prefix");
        }
        if self.xnm_prefix != other.xnm_prefix {
            d.push("xnm-prefix");
        }
        if self.inter != other.inter {
            d.push("inter-element-ws");
        }
        if self.token_ws != other.token_ws {
            d.push("token-ws");
        }
        if self.comments != other.comments {
            d.push("comments");
        }
        if self.single_quotes != other.single_quotes {
            d.push("quotes");
        }
        if self.reverse_attrs != other.reverse_attrs {
            d.push("attr-order");
        }
        if self.xml_decl != other.xml_decl || (self.xml_decl && self.decl_form != other.decl_form) {
            d.push("xml-decl");
        }
        if self.expand_empty != other.expand_empty {
            d.push("empty-leaf-form");
        }
        if self.collapse_containers != other.collapse_containers {
            d.push("empty-container-form");
        }
        if self.before_marker != other.before_marker {
            d.push("ws-before-marker");
        }
        d
    }
}

fn ws_strategy() -> impl Strategy<Value = Ws> {
    prop_oneof![
        3 => Just(Ws::None),
        2 => (1u8..4).prop_map(Ws::Spaces),
        3 => (0u8..5).prop_map(Ws::NewlineIndent),
        1 => Just(Ws::Tab),
        1 => (0u8..3).prop_map(Ws::CrLfIndent),
        1 => Just(Ws::Cr),
    ]
}

fn prefix_strategy() -> impl Strategy<Value = Option<String>> {
    prop_oneof![
        3 => Just(None),
        2 => Just(Some("nc".to_string())),
        1 => "[a-z][a-z0-9_.-]{0,6}"
            .prop_filter("xml prefix reserved", |p| !p.to_ascii_lowercase().starts_with("xml"))
            .prop_map(Some),
    ]
}

pub fn style_strategy() -> impl Strategy<Value = Style> {
    (
        prefix_strategy(),
        prefix_strategy(),
        ws_strategy(),
        ws_strategy(),
        0u8..3,
        any::<bool>(),
        any::<bool>(),
        prop::bool::weighted(0.3),
        any::<bool>(),
        ws_strategy(),
        any::<bool>(),
        0u8..6,
    )
        .prop_map(
            |(
                base_prefix,
                xnm_prefix,
                inter,
                token_ws,
                comments,
                single_quotes,
                reverse_attrs,
                xml_decl,
                expand_empty,
                before_marker,
                collapse_containers,
                decl_form,
            )| {
                let xnm_prefix = match (&base_prefix, xnm_prefix) {
                    // two different namespaces must not share a prefix
                    (Some(b), Some(x)) if *b == x => Some(format!("{x}x")),
                    (_, x) => x,
                };
                Style {
                    base_prefix,
                    xnm_prefix,
                    inter,
                    token_ws,
                    comments,
                    single_quotes,
                    reverse_attrs,
                    xml_decl,
                    decl_form,
                    expand_empty,
                    collapse_containers,
                    before_marker,
                    scope: None,
                }
            },
        )
}

struct Renderer<'a> {
    style: &'a Style,
    out: String,
    comment_no: usize,
}

impl<'a> Renderer<'a> {
    fn prefix_for(&self, ns: &Ns) -> Option<String> {
        match ns {
            Ns::Base => self.style.base_prefix.clone(),
            Ns::Xnm => self.style.xnm_prefix.clone(),
            Ns::None => None,
            other => {
                // never collide with a prefix the style chose for another namespace
                let mut p = other.default_prefix().to_string();
                while Some(&p) == self.style.base_prefix.as_ref()
                    || Some(&p) == self.style.xnm_prefix.as_ref()
                {
                    p.push('_');
                }
                Some(p)
            }
        }
    }

    /// prefix for an attribute in namespace `ns` (attributes cannot use the default namespace)
    fn attr_prefix(&self, ns: &Ns) -> String {
        self.prefix_for(ns).unwrap_or_else(|| {
            let mut p = ns.default_prefix().to_string();
            while Some(&p) == self.style.base_prefix.as_ref()
                || Some(&p) == self.style.xnm_prefix.as_ref()
            {
                p.push('_');
            }
            p
        })
    }

    fn comment(&mut self) {
        self.comment_no += 1;
        self.out
            .push_str(&format!("<!-- c{} -->", self.comment_no));
    }

    fn elem(&mut self, x: &X, depth: usize, default_ns: &Ns, root_decls: Option<&[Ns]>) {
        let q = if self.style.single_quotes { '\'' } else { '"' };
        let prefix = self.prefix_for(&x.ns);
        let qname = match &prefix {
            Some(p) => format!("{p}:{}", x.name),
            None => x.name.clone(),
        };
        let mut attrs: Vec<(String, String)> = Vec::new();
        let mut new_default = default_ns.clone();
        // namespace declarations
        if let Some(all) = root_decls {
            for ns in all {
                if *ns == Ns::None {
                    continue;
                }
                if let Some(p) = self.prefix_for(ns) {
                    attrs.push((format!("xmlns:{p}"), ns.uri().to_string()));
                }
            }
        }
        if prefix.is_none() && x.ns != *default_ns {
            attrs.push(("xmlns".into(), x.ns.uri().to_string()));
            new_default = x.ns.clone();
        }
        let mut own: Vec<(String, String)> = x
            .attrs
            .iter()
            .map(|a| {
                let name = if a.ns == Ns::None {
                    a.name.clone()
                } else {
                    let p = self.attr_prefix(&a.ns);
                    format!("{p}:{}", a.name)
                };
                (name, a.value.clone())
            })
            .collect();
        // an attribute in a namespace whose style says "default namespace" still needs a prefix
        for a in &x.attrs {
            if a.ns != Ns::None && self.prefix_for(&a.ns).is_none() {
                let p = self.attr_prefix(&a.ns);
                let decl = (format!("xmlns:{p}"), a.ns.uri().to_string());
                if !attrs.contains(&decl) {
                    attrs.push(decl);
                }
            }
        }
        attrs.append(&mut own);
        if self.style.reverse_attrs {
            attrs.reverse();
        }
        self.out.push('<');
        self.out.push_str(&qname);
        for (k, v) in &attrs {
            self.out
                .push_str(&format!(" {k}={q}{}{q}", escape_attr(v, q)));
        }
        let scoped = self.style.scope.as_ref().map_or(true, |n| *n == x.name);
        if x.kids.is_empty() {
            let expand = if x.container {
                !(self.style.collapse_containers && scoped)
            } else {
                self.style.expand_empty && scoped
            };
            if expand {
                self.out.push('>');
                // a leaf whose only content is a comment is still empty (not inside containers:
                // the content of <data> is handed to the caller verbatim, comments included)
                if self.style.comments >= 1 && scoped && !x.container {
                    self.comment();
                }
                self.out.push_str(&format!("</{qname}>"));
            } else {
                self.out.push_str("/>");
            }
            return;
        }
        self.out.push('>');
        let element_only = x.kids.iter().all(|k| matches!(k, XNode::E(_)));
        for k in &x.kids {
            match k {
                XNode::E(e) => {
                    if element_only {
                        self.out.push_str(&self.style.inter.render(depth + 1));
                        if self.style.comments >= 1 && scoped {
                            self.comment();
                            self.out.push_str(&self.style.inter.render(depth + 1));
                        }
                    }
                    self.elem(e, depth + 1, &new_default, None);
                }
                XNode::T(t) => {
                    let ws = if scoped {
                        self.style.token_ws.render(depth + 1)
                    } else {
                        String::new()
                    };
                    self.out.push_str(&ws);
                    self.out.push_str(&escape_text(t));
                    self.out.push_str(&ws);
                }
                XNode::S(t) => self.out.push_str(&escape_text(t)),
                XNode::Raw(t) => self.out.push_str(t),
            }
        }
        if element_only {
            if self.style.comments >= 1 && scoped {
                self.out.push_str(&self.style.inter.render(depth + 1));
                self.comment();
            }
            self.out.push_str(&self.style.inter.render(depth));
        }
        self.out.push_str(&format!("</{qname}>"));
    }
}

/// Render the tree as an element (no declaration, no delimiter).
pub fn render_elem(x: &X, style: &Style) -> String {
    let mut used = Vec::new();
    x.collect_ns(&mut used);
    let mut r = Renderer {
        style,
        out: String::new(),
        comment_no: 0,
    };
    r.elem(x, 0, &Ns::None, Some(&used));
    r.out
}

/// Render a complete framed message: [declaration] [comment] root [comment] ws `]]>]]>`.
pub fn render_message(x: &X, style: &Style) -> String {
    let mut out = String::new();
    if style.xml_decl {
        out.push_str(match style.decl_form % 6 {
            0 => "<?xml version=\"1.0\" encoding=\"UTF-8\"?>",
            1 => "<?xml version=\"1.0\"?>",
            2 => "<?xml version='1.0' encoding='utf-8'?>",
            3 => "<?xml version=\"1.0\" encoding=\"UTF-8\" standalone=\"yes\"?>",
            4 => "<?xml version=\"1.0\" encoding=\"utf-8\" standalone='no' ?>",
            _ => "<?xml version = \"1.0\" encoding = \"Utf-8\"?>",
        });
        out.push_str(&style.inter.render(0));
    }
    if style.comments >= 2 {
        out.push_str("<!-- before root -->");
        out.push_str(&style.inter.render(0));
    }
    out.push_str(&render_elem(x, style));
    if style.comments >= 2 {
        out.push_str(&style.inter.render(0));
        out.push_str("<!-- after root -->");
    }
    out.push_str(&style.before_marker.render(0));
    out.push_str("]]>]]>");
    out
}

#[cfg(test)]
mod tests {
    use super::*;
    use crate::xmlstrict::parse_document;

    #[test]
    fn renders_well_formed() {
        let x = X::container(Ns::Base, "rpc-reply")
            .attr("message-id", "1")
            .kid(X::container(Ns::Base, "data").kid(
                X::container(Ns::Xnm, "configuration")
                    .nsattr(Ns::Junos, "changed-seconds", "1")
                    .kid(X::leaf(Ns::Xnm, "name", "a<b")),
            ));
        for style in [
            Style::canonical(),
            Style::compact(),
            Style {
                base_prefix: Some("nc".into()),
                xnm_prefix: Some("x".into()),
                comments: 2,
                xml_decl: true,
                expand_empty: true,
                single_quotes: true,
                reverse_attrs: true,
                token_ws: Ws::NewlineIndent(1),
                ..Style::canonical()
            },
        ] {
            let s = render_message(&x, &style);
            let body = s.strip_suffix("]]>]]>").unwrap();
            parse_document(body).unwrap_or_else(|e| panic!("{e}: {s}"));
        }
    }
}
