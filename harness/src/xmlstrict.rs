//! A small strict XML 1.0 well-formedness parser written for the harness (deliberately not
//! quick-xml, which is what the code under test uses). It is the oracle of C10 and the front end
//! of the fake Junos.
//!
//! Checks: exactly one root element, balanced and properly nested tags, legal names, unique
//! attribute names, quoted attribute values without `<`, legal characters (XML `Char`), only the
//! five predefined entities and numeric character references, no `]]>` in character data,
//! well-formed comments / CDATA / processing instructions, optional XML declaration only at the
//! very start, nothing but misc after the root. DOCTYPE is rejected (NETCONF forbids it).
//! Not namespace-validating (see DESIGN.md section 4 item 3).

#[derive(Debug, Clone, PartialEq, Eq)]
pub struct Elem {
    pub name: String,
    pub attrs: Vec<(String, String)>,
    pub children: Vec<Node>,
    /// written as `<x/>`
    pub self_closed: bool,
}

#[derive(Debug, Clone, PartialEq, Eq)]
pub enum Node {
    Elem(Elem),
    Text(String),
    Comment(String),
    Pi(String),
}

impl Elem {
    pub fn local(&self) -> &str {
        self.name.rsplit(':').next().unwrap_or(&self.name)
    }
    pub fn elems(&self) -> impl Iterator<Item = &Elem> {
        self.children.iter().filter_map(|n| match n {
            Node::Elem(e) => Some(e),
            _ => None,
        })
    }
    pub fn child(&self, local: &str) -> Option<&Elem> {
        self.elems().find(|e| e.local() == local)
    }
    pub fn children_named<'a>(&'a self, local: &'a str) -> impl Iterator<Item = &'a Elem> + 'a {
        self.elems().filter(move |e| e.local() == local)
    }
    pub fn attr(&self, name: &str) -> Option<&str> {
        self.attrs
            .iter()
            .find(|(k, _)| k == name)
            .map(|(_, v)| v.as_str())
    }
    /// concatenated character data directly inside this element
    pub fn text(&self) -> String {
        let mut s = String::new();
        for n in &self.children {
            if let Node::Text(t) = n {
                s.push_str(t);
            }
        }
        s
    }
    pub fn path(&self, path: &[&str]) -> Option<&Elem> {
        let mut cur = self;
        for p in path {
            cur = cur.child(p)?;
        }
        Some(cur)
    }
}

#[derive(Debug, Clone, PartialEq, Eq)]
pub struct XmlError {
    pub pos: usize,
    pub msg: String,
}

impl std::fmt::Display for XmlError {
    fn fmt(&self, f: &mut std::fmt::Formatter<'_>) -> std::fmt::Result {
        write!(f, "at byte {}: {}", self.pos, self.msg)
    }
}

pub fn is_xml_char(c: char) -> bool {
    matches!(c as u32,
        0x9 | 0xA | 0xD | 0x20..=0xD7FF | 0xE000..=0xFFFD | 0x10000..=0x10FFFF)
}

fn is_name_start(c: char) -> bool {
    matches!(c,
        ':' | 'A'..='Z' | '_' | 'a'..='z'
        | '\u{C0}'..='\u{D6}' | '\u{D8}'..='\u{F6}' | '\u{F8}'..='\u{2FF}'
        | '\u{370}'..='\u{37D}' | '\u{37F}'..='\u{1FFF}' | '\u{200C}'..='\u{200D}'
        | '\u{2070}'..='\u{218F}' | '\u{2C00}'..='\u{2FEF}' | '\u{3001}'..='\u{D7FF}'
        | '\u{F900}'..='\u{FDCF}' | '\u{FDF0}'..='\u{FFFD}' | '\u{10000}'..='\u{EFFFF}')
}

fn is_name_char(c: char) -> bool {
    is_name_start(c)
        || matches!(c, '-' | '.' | '0'..='9' | '\u{B7}' | '\u{300}'..='\u{36F}' | '\u{203F}'..='\u{2040}')
}

struct P<'a> {
    s: &'a str,
    i: usize,
}

type R<T> = Result<T, XmlError>;

impl<'a> P<'a> {
    fn err<T>(&self, msg: impl Into<String>) -> R<T> {
        Err(XmlError {
            pos: self.i,
            msg: msg.into(),
        })
    }
    fn rest(&self) -> &'a str {
        &self.s[self.i..]
    }
    fn peek(&self) -> Option<char> {
        self.rest().chars().next()
    }
    fn starts(&self, p: &str) -> bool {
        self.rest().starts_with(p)
    }
    fn bump(&mut self) -> Option<char> {
        let c = self.peek()?;
        self.i += c.len_utf8();
        Some(c)
    }
    fn eat(&mut self, p: &str) -> bool {
        if self.starts(p) {
            self.i += p.len();
            true
        } else {
            false
        }
    }
    fn skip_ws(&mut self) -> bool {
        let start = self.i;
        while matches!(self.peek(), Some(' ' | '\t' | '\n' | '\r')) {
            self.i += 1;
        }
        self.i > start
    }
    fn name(&mut self) -> R<String> {
        let start = self.i;
        match self.peek() {
            Some(c) if is_name_start(c) => {
                self.bump();
            }
            _ => return self.err("expected a name"),
        }
        while matches!(self.peek(), Some(c) if is_name_char(c)) {
            self.bump();
        }
        Ok(self.s[start..self.i].to_string())
    }
    fn reference(&mut self) -> R<char> {
        // after '&'
        let start = self.i;
        let Some(end) = self.rest().find(';') else {
            return self.err("unterminated reference");
        };
        let body = &self.rest()[..end];
        let c = if let Some(hex) = body.strip_prefix("#x") {
            if hex.is_empty() || !hex.bytes().all(|b| b.is_ascii_hexdigit()) {
                return self.err("bad hex character reference");
            }
            u32::from_str_radix(hex, 16).ok().and_then(char::from_u32)
        } else if let Some(dec) = body.strip_prefix('#') {
            if dec.is_empty() || !dec.bytes().all(|b| b.is_ascii_digit()) {
                return self.err("bad decimal character reference");
            }
            dec.parse::<u32>().ok().and_then(char::from_u32)
        } else {
            match body {
                "lt" => Some('<'),
                "gt" => Some('>'),
                "amp" => Some('&'),
                "apos" => Some('\''),
                "quot" => Some('"'),
                _ => return self.err(format!("undeclared entity '&{body};'")),
            }
        };
        match c {
            Some(c) if is_xml_char(c) => {
                self.i = start + end + 1;
                Ok(c)
            }
            _ => self.err("character reference to an illegal character"),
        }
    }
    fn attr_value(&mut self) -> R<String> {
        let q = match self.bump() {
            Some(q @ ('"' | '\'')) => q,
            _ => return self.err("attribute value must be quoted"),
        };
        let mut out = String::new();
        loop {
            match self.bump() {
                None => return self.err("unterminated attribute value"),
                Some(c) if c == q => break,
                Some('<') => return self.err("'<' in attribute value"),
                Some('&') => out.push(self.reference()?),
                Some('\r') => {
                    // line end normalisation then attribute normalisation
                    if self.peek() == Some('\n') {
                        self.bump();
                    }
                    out.push(' ');
                }
                Some('\t' | '\n') => out.push(' '),
                Some(c) if is_xml_char(c) => out.push(c),
                Some(c) => return self.err(format!("illegal character U+{:04X}", c as u32)),
            }
        }
        Ok(out)
    }
    fn comment(&mut self) -> R<String> {
        // after "<!--"
        let Some(end) = self.rest().find("--") else {
            return self.err("unterminated comment");
        };
        let body = &self.rest()[..end];
        if let Some(c) = body.chars().find(|c| !is_xml_char(*c)) {
            return self.err(format!("illegal character U+{:04X} in comment", c as u32));
        }
        let body = body.to_string();
        self.i += end;
        if !self.eat("-->") {
            return self.err("'--' inside comment");
        }
        Ok(body)
    }
    fn pi(&mut self) -> R<String> {
        // after "<?"
        let target = self.name()?;
        if target.eq_ignore_ascii_case("xml") {
            return self.err("XML declaration not at the start of the document");
        }
        let Some(end) = self.rest().find("?>") else {
            return self.err("unterminated processing instruction");
        };
        let body = &self.rest()[..end];
        if !body.is_empty() && !body.starts_with([' ', '\t', '\n', '\r']) {
            return self.err("missing whitespace after PI target");
        }
        if let Some(c) = body.chars().find(|c| !is_xml_char(*c)) {
            return self.err(format!("illegal character U+{:04X} in PI", c as u32));
        }
        let out = format!("{target}{body}");
        self.i += end + 2;
        Ok(out)
    }
    fn xml_decl(&mut self) -> R<()> {
        // after "<?xml" followed by whitespace
        let Some(end) = self.rest().find("?>") else {
            return self.err("unterminated XML declaration");
        };
        let body = self.rest()[..end].to_string();
        let mut p = P { s: &body, i: 0 };
        let mut seen = Vec::new();
        loop {
            let ws = p.skip_ws();
            if p.i >= body.len() {
                break;
            }
            if !ws {
                return self.err("malformed XML declaration");
            }
            let Ok(k) = p.name() else {
                return self.err("malformed XML declaration");
            };
            p.skip_ws();
            if !p.eat("=") {
                return self.err("malformed XML declaration");
            }
            p.skip_ws();
            let Ok(v) = p.attr_value() else {
                return self.err("malformed XML declaration");
            };
            seen.push((k, v));
        }
        let keys: Vec<&str> = seen.iter().map(|(k, _)| k.as_str()).collect();
        let ok = matches!(
            keys.as_slice(),
            ["version"] | ["version", "encoding"] | ["version", "standalone"]
                | ["version", "encoding", "standalone"]
        );
        if !ok {
            return self.err("malformed XML declaration (pseudo-attributes)");
        }
        // VersionNum ::= '1.' [0-9]+ ; EncName ::= [A-Za-z] ([A-Za-z0-9._] | '-')* ; SDDecl yes|no.
        // The values are literals: no references, no '<'.
        for (k, v) in &seen {
            let raw_ok = match k.as_str() {
                "version" => v
                    .strip_prefix("1.")
                    .is_some_and(|d| !d.is_empty() && d.bytes().all(|b| b.is_ascii_digit())),
                "encoding" => {
                    let mut b = v.bytes();
                    b.next().is_some_and(|c| c.is_ascii_alphabetic())
                        && b.all(|c| c.is_ascii_alphanumeric() || matches!(c, b'.' | b'_' | b'-'))
                }
                _ => v == "yes" || v == "no",
            };
            if !raw_ok {
                return self.err(format!("malformed XML declaration ({k})"));
            }
        }
        self.i += end + 2;
        Ok(())
    }
    fn element(&mut self, depth: usize) -> R<Elem> {
        // at '<' followed by a name start
        if depth > 20_000 {
            return self.err("nesting too deep");
        }
        self.i += 1;
        let name = self.name()?;
        let mut attrs: Vec<(String, String)> = Vec::new();
        loop {
            let ws = self.skip_ws();
            if self.eat("/>") {
                return Ok(Elem {
                    name,
                    attrs,
                    children: Vec::new(),
                    self_closed: true,
                });
            }
            if self.eat(">") {
                break;
            }
            if !ws {
                return self.err("expected whitespace, '>' or '/>' in start tag");
            }
            let k = self.name()?;
            self.skip_ws();
            if !self.eat("=") {
                return self.err("expected '=' after attribute name");
            }
            self.skip_ws();
            let v = self.attr_value()?;
            if attrs.iter().any(|(k2, _)| *k2 == k) {
                return self.err(format!("duplicate attribute '{k}'"));
            }
            attrs.push((k, v));
        }
        let mut children = Vec::new();
        let mut text = String::new();
        macro_rules! flush {
            () => {
                if !text.is_empty() {
                    children.push(Node::Text(std::mem::take(&mut text)));
                }
            };
        }
        loop {
            if self.starts("</") {
                flush!();
                self.i += 2;
                let end = self.name()?;
                if end != name {
                    return self.err(format!("mismatched end tag </{end}> for <{name}>"));
                }
                self.skip_ws();
                if !self.eat(">") {
                    return self.err("malformed end tag");
                }
                return Ok(Elem {
                    name,
                    attrs,
                    children,
                    self_closed: false,
                });
            } else if self.starts("<!--") {
                flush!();
                self.i += 4;
                children.push(Node::Comment(self.comment()?));
            } else if self.starts("<![CDATA[") {
                self.i += 9;
                let Some(end) = self.rest().find("]]>") else {
                    return self.err("unterminated CDATA section");
                };
                let body = &self.rest()[..end];
                if let Some(c) = body.chars().find(|c| !is_xml_char(*c)) {
                    return self.err(format!("illegal character U+{:04X} in CDATA", c as u32));
                }
                text.push_str(&body.replace("\r\n", "\n").replace('\r', "\n"));
                self.i += end + 3;
            } else if self.starts("<?") {
                flush!();
                self.i += 2;
                children.push(Node::Pi(self.pi()?));
            } else if self.starts("<!") {
                return self.err("unexpected markup declaration");
            } else if self.starts("<") {
                flush!();
                children.push(Node::Elem(self.element(depth + 1)?));
            } else {
                match self.bump() {
                    None => return self.err(format!("unexpected end of input inside <{name}>")),
                    Some('&') => text.push(self.reference()?),
                    Some(']') if self.starts("]>") => {
                        return self.err("']]>' in character data");
                    }
                    Some('\r') => {
                        if self.peek() == Some('\n') {
                            self.bump();
                        }
                        text.push('\n');
                    }
                    Some(c) if is_xml_char(c) => text.push(c),
                    Some(c) => {
                        return self.err(format!("illegal character U+{:04X}", c as u32));
                    }
                }
            }
        }
    }
}

// ---- cross-check sampler: (document, verdict) pairs handed to an independent parser (expat) ----

static XCHECK_CAP: std::sync::atomic::AtomicUsize = std::sync::atomic::AtomicUsize::new(0);
static XCHECK_LEN: std::sync::atomic::AtomicUsize = std::sync::atomic::AtomicUsize::new(0);
static XCHECK_CALLS: std::sync::atomic::AtomicU64 = std::sync::atomic::AtomicU64::new(0);
static XCHECK: std::sync::Mutex<Option<(std::collections::HashSet<u64>, Vec<(String, bool)>)>> =
    std::sync::Mutex::new(None);

/// keep up to `cap` distinct documents (and this parser's verdict on each) for the cross-check
pub fn xcheck_enable(cap: usize) {
    *XCHECK.lock().unwrap() = Some(Default::default());
    XCHECK_LEN.store(0, std::sync::atomic::Ordering::SeqCst);
    XCHECK_CAP.store(cap, std::sync::atomic::Ordering::SeqCst);
}

/// (number of parse_document calls, the kept sample)
pub fn xcheck_take() -> (u64, Vec<(String, bool)>) {
    XCHECK_CAP.store(0, std::sync::atomic::Ordering::SeqCst);
    let kept = XCHECK.lock().unwrap().take().map(|(_, v)| v).unwrap_or_default();
    (XCHECK_CALLS.load(std::sync::atomic::Ordering::SeqCst), kept)
}

fn xcheck_record(s: &str, ok: bool) {
    use std::sync::atomic::Ordering::Relaxed;
    XCHECK_CALLS.fetch_add(1, Relaxed);
    let cap = XCHECK_CAP.load(Relaxed);
    if cap == 0 || XCHECK_LEN.load(Relaxed) >= cap || s.len() > 64 * 1024 {
        return;
    }
    use std::hash::{Hash, Hasher};
    let mut h = std::collections::hash_map::DefaultHasher::new();
    s.hash(&mut h);
    let h = h.finish();
    if let Ok(mut g) = XCHECK.lock() {
        if let Some((seen, kept)) = g.as_mut() {
            if kept.len() < cap && seen.insert(h) {
                kept.push((s.to_string(), ok));
                XCHECK_LEN.store(kept.len(), Relaxed);
            }
        }
    }
}

/// Parse a complete document; returns the root element.
pub fn parse_document(s: &str) -> Result<Elem, XmlError> {
    let r = parse_document_inner(s);
    xcheck_record(s, r.is_ok());
    r
}

fn parse_document_inner(s: &str) -> Result<Elem, XmlError> {
    let mut p = P { s, i: 0 };
    if p.starts("<?xml") && matches!(s[5..].chars().next(), Some(' ' | '\t' | '\n' | '\r')) {
        p.i += 5;
        p.xml_decl()?;
    }
    let mut root = None;
    loop {
        p.skip_ws();
        if p.i >= s.len() {
            break;
        }
        if p.starts("<!--") {
            p.i += 4;
            p.comment()?;
        } else if p.starts("<?") {
            p.i += 2;
            p.pi()?;
        } else if p.starts("<!") {
            return p.err("DOCTYPE / markup declarations are not allowed");
        } else if p.starts("<") {
            if root.is_some() {
                return p.err("more than one root element");
            }
            root = Some(p.element(0)?);
        } else {
            return p.err("character data outside the root element");
        }
    }
    match root {
        Some(r) => Ok(r),
        None => Err(XmlError {
            pos: s.len(),
            msg: "no root element".into(),
        }),
    }
}

/// Parse a sequence of content nodes (an XML *fragment*: zero or more elements, text, comments).
pub fn parse_fragment(s: &str) -> Result<Vec<Node>, XmlError> {
    let wrapped = format!("<f>{s}</f>");
    parse_document(&wrapped)
        .map(|e| e.children)
        .map_err(|mut e| {
            e.pos = e.pos.saturating_sub(3);
            e
        })
}

pub fn escape_text(s: &str) -> String {
    let mut o = String::with_capacity(s.len());
    for c in s.chars() {
        match c {
            '<' => o.push_str("&lt;"),
            '>' => o.push_str("&gt;"),
            '&' => o.push_str("&amp;"),
            _ => o.push(c),
        }
    }
    o
}

pub fn escape_attr(s: &str, quote: char) -> String {
    let mut o = String::with_capacity(s.len());
    for c in s.chars() {
        match c {
            '<' => o.push_str("&lt;"),
            '>' => o.push_str("&gt;"),
            '&' => o.push_str("&amp;"),
            '"' if quote == '"' => o.push_str("&quot;"),
            '\'' if quote == '\'' => o.push_str("&apos;"),
            '\t' => o.push_str("&#9;"),
            '\n' => o.push_str("&#10;"),
            '\r' => o.push_str("&#13;"),
            _ => o.push(c),
        }
    }
    o
}

#[cfg(test)]
mod tests {
    use super::*;

    #[test]
    fn accepts_basic() {
        let e = parse_document("<?xml version=\"1.0\"?><!-- c --><a x='1' y=\"&lt;&#65;\"><b/>t&amp;<![CDATA[<z>]]></a> ").unwrap();
        assert_eq!(e.name, "a");
        assert_eq!(e.attr("y"), Some("<A"));
        assert_eq!(e.text(), "t&<z>");
        assert!(e.child("b").unwrap().self_closed);
    }

    #[test]
    fn rejects() {
        for bad in [
            "", "<a>", "<a></b>", "<a/><b/>", "<a x=1/>", "<a x='1' x='2'/>", "<a>&foo;</a>",
            "<a>a < b</a>", "<a>]]></a>", "<a><!-- -- --></a>", "x<a/>", "<a/>x", "<a>&#0;</a>",
            "<a>\u{1}</a>", "<a b='<'/>", "<a>&amp</a>", "<!DOCTYPE a><a/>", " <?xml version='1.0'?><a/>",
            "<a><?xml version='1.0'?></a>", "<1a/>", "<a b/>",
        ] {
            assert!(parse_document(bad).is_err(), "accepted {bad:?}");
        }
    }
}
