//! Engine F helpers: a session over the in-memory transport, one task, no runtime.

use std::fmt::Debug;

use netconf::{
    message::rpc::{
        operation::{Builder as _, Operation},
        IntoResult,
    },
    Error, Session,
};

use crate::{
    mem::{drive, MemTransport, Wire},
    xmlstrict,
};

pub const NS_BASE: &str = "urn:ietf:params:xml:ns:netconf:base:1.0";
pub const BASE10: &str = "urn:ietf:params:netconf:base:1.0";
pub const BASE11: &str = "urn:ietf:params:netconf:base:1.1";
pub const CAP_WRITABLE_RUNNING: &str = "urn:ietf:params:netconf:capability:writable-running:1.0";
pub const CAP_CANDIDATE: &str = "urn:ietf:params:netconf:capability:candidate:1.0";
pub const CAP_CONFIRMED10: &str = "urn:ietf:params:netconf:capability:confirmed-commit:1.0";
pub const CAP_CONFIRMED11: &str = "urn:ietf:params:netconf:capability:confirmed-commit:1.1";
pub const CAP_ROLLBACK: &str = "urn:ietf:params:netconf:capability:rollback-on-error:1.0";
pub const CAP_VALIDATE10: &str = "urn:ietf:params:netconf:capability:validate:1.0";
pub const CAP_VALIDATE11: &str = "urn:ietf:params:netconf:capability:validate:1.1";
pub const CAP_STARTUP: &str = "urn:ietf:params:netconf:capability:startup:1.0";
pub const CAP_XPATH: &str = "urn:ietf:params:netconf:capability:xpath:1.0";
pub const CAP_URL: &str = "urn:ietf:params:netconf:capability:url:1.0";
pub const CAP_JUNOS: &str = "http://xml.juniper.net/netconf/junos/1.0";
pub const MARKER: &str = "]]>]]>";

/// every standard capability plus Junos and all url schemes
pub fn all_caps() -> Vec<String> {
    vec![
        BASE10.into(),
        CAP_WRITABLE_RUNNING.into(),
        CAP_CANDIDATE.into(),
        CAP_CONFIRMED10.into(),
        CAP_CONFIRMED11.into(),
        CAP_ROLLBACK.into(),
        CAP_VALIDATE10.into(),
        CAP_VALIDATE11.into(),
        CAP_STARTUP.into(),
        CAP_XPATH.into(),
        format!("{CAP_URL}?scheme=file,ftp,http,https,sftp"),
        CAP_JUNOS.into(),
    ]
}

/// a plain, canonical server hello (the style Junos emits)
pub fn hello_xml(caps: &[String], session_id: &str) -> String {
    let mut s = format!("<hello xmlns=\"{NS_BASE}\">\n  <capabilities>\n");
    for c in caps {
        s.push_str(&format!(
            "    <capability>{}</capability>\n",
            xmlstrict::escape_text(c)
        ));
    }
    s.push_str(&format!(
        "  </capabilities>\n  <session-id>{session_id}</session-id>\n</hello>\n{MARKER}"
    ));
    s
}

#[derive(Debug)]
pub enum Establish {
    Ok(Session<MemTransport>),
    Err(Error),
    Stuck,
}

/// Establish a session against the given (framed) hello bytes.
pub fn establish_with(wire: &Wire, hello: &[u8]) -> Establish {
    wire.push(hello.to_vec());
    match drive(Session::verif_new(wire.transport())) {
        Some(Ok(s)) => Establish::Ok(s),
        Some(Err(e)) => Establish::Err(e),
        None => Establish::Stuck,
    }
}

/// Establish against a canonical hello with these capabilities; panics if that fails
/// (it is a harness precondition, exercised separately by C12).
pub fn establish_caps(caps: &[String]) -> (Session<MemTransport>, Wire) {
    let wire = Wire::new();
    match establish_with(&wire, hello_xml(caps, "4711").as_bytes()) {
        Establish::Ok(s) => (s, wire),
        other => panic!("harness precondition: canonical hello not accepted: {other:?}"),
    }
}

/// message-id of a serialised `<rpc>` (strictly parsed); `None` if it cannot be found
pub fn message_id_of(request: &[u8]) -> Option<String> {
    let s = std::str::from_utf8(request).ok()?;
    let body = s.strip_suffix(MARKER)?;
    let root = xmlstrict::parse_document(body).ok()?;
    if root.name != "rpc" {
        return None;
    }
    root.attr("message-id").map(ToString::to_string)
}

/// Lenient extraction for requests that may be malformed (C10 tests well-formedness separately).
pub fn message_id_lenient(request: &[u8]) -> Option<String> {
    let s = String::from_utf8_lossy(request);
    let i = s.find("message-id=\"")? + 12;
    let j = s[i..].find('"')? + i;
    Some(s[i..j].to_string())
}

#[derive(Debug)]
pub enum Exchange<T> {
    /// the builder / local validation refused; nothing should have been sent
    Refused(Error),
    /// request sent; reply future resolved
    Done {
        request: Vec<u8>,
        result: Result<T, Error>,
    },
    /// request sent; reply future still pending with nothing left to read
    Stuck { request: Vec<u8> },
    /// the send future itself never completed
    SendStuck,
}

/// Send one RPC and answer it with `reply(message_id)` (already framed messages).
pub fn exchange<O, F, R>(
    sess: &mut Session<MemTransport>,
    wire: &Wire,
    build: F,
    reply: R,
) -> Exchange<<O::Reply as IntoResult>::Ok>
where
    O: Operation,
    F: FnOnce(O::Builder<'_>) -> Result<O, Error> + Send,
    R: FnOnce(&str) -> Vec<Vec<u8>>,
    <O::Reply as IntoResult>::Ok: Debug,
{
    let before = wire.sent_count();
    let fut = match drive(sess.rpc::<O, F>(build)) {
        None => return Exchange::SendStuck,
        Some(Err(e)) => return Exchange::Refused(e),
        Some(Ok(f)) => f,
    };
    let sent = wire.sent();
    let request = sent
        .get(before)
        .map(|b| b.to_vec())
        .unwrap_or_default();
    let id = message_id_lenient(&request).unwrap_or_else(|| "0".into());
    for m in reply(&id) {
        wire.push(m);
    }
    match drive(fut) {
        Some(result) => Exchange::Done { request, result },
        None => Exchange::Stuck { request },
    }
}

/// `finish()` helper usable as a build closure
pub fn finish<'a, O: Operation>(b: O::Builder<'a>) -> Result<O, Error> {
    b.finish()
}
