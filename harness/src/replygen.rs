//! Generators for `<rpc-reply>` documents (abstract form) shared by C08, C13 and C14.

use proptest::prelude::*;
use serde::{Deserialize, Serialize};

use crate::xmlgen::{Ns, X};

pub const ERROR_TYPES: [(&str, &str); 4] = [
    ("transport", "Transport"),
    ("rpc", "Rpc"),
    ("protocol", "Protocol"),
    ("application", "Application"),
];

pub const ERROR_TAGS: [(&str, &str); 20] = [
    ("in-use", "InUse"),
    ("invalid-value", "InvalidValue"),
    ("too-big", "TooBig"),
    ("missing-attribute", "MissingAttribute"),
    ("bad-attribute", "BadAttribute"),
    ("unknown-attribute", "UnknownAttribute"),
    ("missing-element", "MissingElement"),
    ("bad-element", "BadElement"),
    ("unknown-element", "UnknownElement"),
    ("unknown-namespace", "UnknownNamespace"),
    ("access-denied", "AccessDenied"),
    ("lock-denied", "LockDenied"),
    ("resource-denied", "ResourceDenied"),
    ("rollback-failed", "RollbackFailed"),
    ("data-exists", "DataExists"),
    ("data-missing", "DataMissing"),
    ("operation-not-supported", "OperationNotSupported"),
    ("operation-failed", "OperationFailed"),
    ("malformed-message", "MalformedMessage"),
    ("partial-operation", "PartialOperation"),
];

pub const INFO_KINDS: [(&str, &str); 7] = [
    ("bad-attribute", "BadAttribute"),
    ("bad-element", "BadElement"),
    ("bad-namespace", "BadNamespace"),
    ("session-id", "SessionId"),
    ("ok-element", "OkElement"),
    ("err-element", "ErrElement"),
    ("noop-element", "NoopElement"),
];

#[derive(Debug, Clone, PartialEq, Eq, Hash, Serialize, Deserialize)]
pub struct ErrSpec {
    pub ty: u8,
    pub tag: u8,
    pub severity_error: bool,
    pub app_tag: Option<String>,
    pub path: Option<String>,
    pub message: Option<String>,
    /// (kind index, value); for session-id the value is a decimal u32
    pub info: Vec<(u8, String)>,
    /// the abbreviated form Junos uses for CLI-layer messages: bit 0 = no `<error-type>`,
    /// bit 1 = no `<error-tag>` (0 = the complete RFC 6241 form)
    #[serde(default)]
    pub abbreviated: u8,
}

impl ErrSpec {
    pub fn simple(severity_error: bool) -> Self {
        Self {
            ty: 2,
            tag: 17,
            severity_error,
            app_tag: None,
            path: None,
            message: Some("statement creation failed".into()),
            info: vec![(1, "route-filter".into())],
            abbreviated: 0,
        }
    }

    pub fn to_x(&self) -> X {
        let mut e = X::container(Ns::Base, "rpc-error");
        if self.abbreviated & 1 == 0 {
            e = e.kid(X::leaf(Ns::Base, "error-type", ERROR_TYPES[self.ty as usize % 4].0));
        }
        if self.abbreviated & 2 == 0 {
            e = e.kid(X::leaf(Ns::Base, "error-tag", ERROR_TAGS[self.tag as usize % 20].0));
        }
        let mut e = e
            .kid(X::leaf(
                Ns::Base,
                "error-severity",
                if self.severity_error { "error" } else { "warning" },
            ));
        if let Some(a) = &self.app_tag {
            e = e.kid(X::leaf(Ns::Base, "error-app-tag", a));
        }
        if let Some(p) = &self.path {
            e = e.kid(X::leaf(Ns::Base, "error-path", p));
        }
        if let Some(m) = &self.message {
            e = e.kid(X::leaf(Ns::Base, "error-message", m));
        }
        if !self.info.is_empty() {
            let mut info = X::container(Ns::Base, "error-info");
            for (k, v) in &self.info {
                // info values are read without trimming by the library: render as free text
                info = info.kid(X::new(Ns::Base, INFO_KINDS[*k as usize % 7].0).text(v));
            }
            e = e.kid(info);
        }
        e
    }

    /// the `Debug` rendering the library's `rpc::Error` has for this error
    pub fn expected_debug(&self) -> String {
        let opt = |label: &str, v: &Option<String>| match v {
            None => "None".to_string(),
            Some(s) => format!("Some({label} {{ inner: {s:?} }})"),
        };
        let message = match &self.message {
            None => "None".to_string(),
            Some(s) => format!("Some(Message {{ lang: (), inner: {s:?} }})"),
        };
        let info = self
            .info
            .iter()
            .map(|(k, v)| {
                let (_, variant) = INFO_KINDS[*k as usize % 7];
                if variant == "SessionId" {
                    match v.parse::<u32>() {
                        Ok(0) => "SessionId(None)".to_string(),
                        Ok(n) => format!("SessionId(Some(SessionId({n})))"),
                        Err(_) => "SessionId(?)".to_string(),
                    }
                } else {
                    format!("{variant}({v:?})")
                }
            })
            .collect::<Vec<_>>()
            .join(", ");
        format!(
            "Error {{ error_type: {}, error_tag: {}, severity: {}, app_tag: {}, path: {}, message: {}, info: Info {{ inner: [{}] }} }}",
            ERROR_TYPES[self.ty as usize % 4].1,
            ERROR_TAGS[self.tag as usize % 20].1,
            if self.severity_error { "Error" } else { "Warning" },
            opt("AppTag", &self.app_tag),
            opt("Path", &self.path),
            message,
            info
        )
    }
}

/// token-like text without XML metacharacters and without leading/trailing whitespace
pub fn plain_text() -> impl Strategy<Value = String> {
    "[A-Za-z0-9_./:=-]([A-Za-z0-9_./:= -]{0,22}[A-Za-z0-9_./:=-])?"
}

pub fn err_spec() -> impl Strategy<Value = ErrSpec> {
    (
        0u8..4,
        0u8..20,
        prop::bool::weighted(0.6),
        prop::option::weighted(0.3, plain_text()),
        prop::option::weighted(0.3, plain_text()),
        prop::option::weighted(0.6, plain_text()),
        prop::collection::vec(
            (0u8..7).prop_flat_map(|k| {
                if k == 3 {
                    prop_oneof![Just(0u32), 1u32..100, Just(u32::MAX)]
                        .prop_map(move |n| (k, n.to_string()))
                        .boxed()
                } else {
                    plain_text().prop_map(move |v| (k, v)).boxed()
                }
            }),
            0..3,
        ),
        prop_oneof![9 => Just(0u8), 1 => 1u8..4],
    )
        .prop_map(
            |(ty, tag, severity_error, app_tag, path, message, info, abbreviated)| ErrSpec {
                ty,
                tag,
                severity_error,
                app_tag,
                path,
                message,
                info,
                abbreviated,
            },
        )
}

/// child of `<load-configuration-results>`
#[derive(Debug, Clone, PartialEq, Eq, Hash, Serialize, Deserialize)]
pub enum Inner {
    Ok,
    Err(ErrSpec),
    Count(u8),
}

/// child of `<rpc-reply>`
#[derive(Debug, Clone, PartialEq, Eq, Hash, Serialize, Deserialize)]
pub enum Item {
    Ok,
    /// `<data>` with an opaque payload
    Data(String),
    Err(ErrSpec),
    Results(Vec<Inner>),
}

pub fn reply_x(message_id: &str, items: &[Item]) -> X {
    let mut r = X::container(Ns::Base, "rpc-reply").attr("message-id", message_id);
    for it in items {
        match it {
            Item::Ok => r = r.kid(X::new(Ns::Base, "ok")),
            Item::Data(p) => {
                let mut d = X::container(Ns::Base, "data");
                if !p.is_empty() {
                    d = d.raw(p);
                }
                r = r.kid(d);
            }
            Item::Err(e) => r = r.kid(e.to_x()),
            Item::Results(inner) => {
                let mut l = X::container(Ns::Base, "load-configuration-results");
                for i in inner {
                    match i {
                        Inner::Ok => l = l.kid(X::new(Ns::Base, "ok")),
                        Inner::Err(e) => l = l.kid(e.to_x()),
                        Inner::Count(n) => {
                            l = l.kid(X::leaf(Ns::Base, "load-error-count", &n.to_string()));
                        }
                    }
                }
                r = r.kid(l);
            }
        }
    }
    r
}

/// all rpc-errors of the document, in document order
pub fn doc_errors(items: &[Item]) -> Vec<&ErrSpec> {
    let mut out = Vec::new();
    for it in items {
        match it {
            Item::Err(e) => out.push(e),
            Item::Results(inner) => {
                for i in inner {
                    if let Inner::Err(e) = i {
                        out.push(e);
                    }
                }
            }
            _ => {}
        }
    }
    out
}
