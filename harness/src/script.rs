//! Server-side scripts for the real-transport engine (E): a small data language that describes
//! what the NETCONF peer writes (in which units), when it waits for client messages, when it
//! pauses and how it closes, and an interpreter generic over the byte channel. The same
//! interpreter runs inside the in-process TLS and SSH servers and inside the `fake_cli` child
//! process that stands in for `/usr/sbin/cli`.
//!
//! (This file is included by both binaries; it must not depend on other harness modules.)

use std::time::{Duration, Instant};

use async_trait::async_trait;
use serde::{Deserialize, Serialize};

pub const MARKER: &[u8] = b"]]>]]>";
pub const NS_BASE: &str = "urn:ietf:params:xml:ns:netconf:base:1.0";

#[derive(Debug, Clone, Serialize, Deserialize, PartialEq, Eq)]
pub enum Step {
    /// write these bytes as one unit (one write+flush / one SSH channel-data packet)
    Write(Vec<u8>),
    PauseMs(u64),
    /// read until this many complete client messages have been received in total
    AwaitMessages(usize),
    /// answer the next `payloads.len()` unanswered requests (in request order) with
    /// `<rpc-reply message-id=..><data>payload</data></rpc-reply>`, concatenate the replies and
    /// write the stream in units cut at `cuts` (byte offsets into the stream), pausing between units
    Reply {
        payloads: Vec<String>,
        cuts: Vec<usize>,
        pause_ms: u64,
    },
    /// like `Reply`, but RFC 6242 chunked framing
    ReplyChunked { payloads: Vec<String> },
    /// reply in whatever framing `NegotiateFraming` selected
    ReplyNegotiated { payloads: Vec<String> },
    /// close the connection: clean (close_notify / EOF / exit 0) or abrupt (reset / kill)
    Close { abrupt: bool },
    /// signal end of stream but keep the connection (see `PeerIo::half_close`); the script goes on
    HalfClose,
    /// keep the connection open and idle until the peer goes away (or for at most this long)
    HoldMs(u64),
    /// record a named time stamp
    Mark(String),
    /// like `AwaitMessages(n)`, but if the messages have not arrived after `nudge_ms` the peer
    /// records the mark `nudge-<n>` and sends one harmless further unit (a newline) — "further
    /// traffic" — and keeps waiting
    AwaitWithNudge { n: usize, nudge_ms: u64 },
    /// wait for the client to close; nudge as above (mark `nudge-close`) after `nudge_ms`
    AwaitCloseWithNudge { nudge_ms: u64, max_ms: u64 },
    /// after the hello exchange: switch to chunked framing iff the client advertised :base:1.1
    /// (a conforming RFC 6242 server); `server_has_11` says whether this server advertised it
    NegotiateFraming { server_has_11: bool },
}

#[derive(Debug, Clone, Serialize, Deserialize, Default)]
pub struct Script {
    pub steps: Vec<Step>,
}

#[derive(Debug, Clone, Serialize, Deserialize, Default)]
pub struct Marks {
    /// (name, nanoseconds on the shared monotonic clock)
    pub marks: Vec<(String, u64)>,
    /// raw client messages received (lossy utf-8)
    pub received: Vec<String>,
    pub error: Option<String>,
    pub chunked: bool,
}

#[async_trait]
pub trait PeerIo: Send {
    async fn write_unit(&mut self, data: &[u8]) -> std::io::Result<()>;
    /// read some bytes; an empty vector means EOF
    async fn read_some(&mut self) -> std::io::Result<Vec<u8>>;
    async fn close(&mut self, abrupt: bool);
    /// end of stream without closing the connection: TLS close_notify with the TCP connection
    /// left open, SSH channel EOF without channel close, the child's stdout closed while the
    /// process lives on
    async fn half_close(&mut self);
}

/// nanoseconds on CLOCK_MONOTONIC (shared between the harness and its child processes)
pub fn mono_ns() -> u64 {
    let mut ts = libc::timespec {
        tv_sec: 0,
        tv_nsec: 0,
    };
    // SAFETY: plain syscall writing into a local
    unsafe { libc::clock_gettime(libc::CLOCK_MONOTONIC, &mut ts) };
    ts.tv_sec as u64 * 1_000_000_000 + ts.tv_nsec as u64
}

fn find(hay: &[u8], needle: &[u8]) -> Option<usize> {
    hay.windows(needle.len()).position(|w| w == needle)
}

fn message_id(msg: &[u8]) -> String {
    let s = String::from_utf8_lossy(msg);
    s.find("message-id=\"")
        .and_then(|i| {
            let rest = &s[i + 12..];
            rest.find('"').map(|j| rest[..j].to_string())
        })
        .unwrap_or_else(|| "0".into())
}

pub fn reply_message(id: &str, payload: &str) -> Vec<u8> {
    format!(
        "<rpc-reply xmlns=\"{NS_BASE}\" message-id=\"{id}\">\n<data>{payload}</data>\n</rpc-reply>\n]]>]]>"
    )
    .into_bytes()
}

/// Run the script against the channel. Returns the time marks and everything received.
pub async fn run_script<P: PeerIo>(io: &mut P, script: &Script) -> Marks {
    run_script_persisting(io, script, None).await
}

/// as `run_script`; additionally rewrites `persist` after every recorded mark (the child process
/// that plays the local CLI is killed when the client drops its session)
pub async fn run_script_persisting<P: PeerIo>(
    io: &mut P,
    script: &Script,
    persist: Option<&std::path::Path>,
) -> Marks {
    let mut marks = Marks::default();
    let save = |m: &Marks| {
        if let Some(p) = persist {
            let tmp = p.with_extension("tmp");
            if std::fs::write(&tmp, serde_json::to_vec(m).unwrap_or_default()).is_ok() {
                let _ = std::fs::rename(&tmp, p);
            }
        }
    };
    save(&marks);
    let mut inbuf: Vec<u8> = Vec::new();
    let mut received: Vec<Vec<u8>> = Vec::new();
    let mut answered = 0usize; // index into requests (received[1..])
    let mut eof = false;
    let mut chunked = false;
    for step in &script.steps {
        match step {
            Step::Write(data) => {
                if let Err(e) = io.write_unit(data).await {
                    marks.error = Some(format!("write: {e}"));
                    break;
                }
            }
            Step::PauseMs(ms) => tokio::time::sleep(Duration::from_millis(*ms)).await,
            Step::Mark(name) => {
                marks.marks.push((name.clone(), mono_ns()));
                save(&marks);
            }
            Step::AwaitCloseWithNudge { nudge_ms, max_ms } => {
                let start = Instant::now();
                let mut nudged = false;
                while !eof && start.elapsed() < Duration::from_millis(*max_ms) {
                    let wait = if nudged {
                        Duration::from_millis(*max_ms).saturating_sub(start.elapsed())
                    } else {
                        Duration::from_millis(*nudge_ms).saturating_sub(start.elapsed())
                    };
                    match tokio::time::timeout(wait, io.read_some()).await {
                        Ok(Ok(b)) if b.is_empty() => eof = true,
                        Ok(Ok(b)) => inbuf.extend_from_slice(&b),
                        Ok(Err(_)) => eof = true,
                        Err(_) if !nudged => {
                            nudged = true;
                            marks.marks.push(("nudge-close".into(), mono_ns()));
                            save(&marks);
                            if io.write_unit(b"\n").await.is_err() {
                                eof = true;
                            }
                        }
                        Err(_) => break,
                    }
                }
            }
            Step::AwaitMessages(_) | Step::AwaitWithNudge { .. } => {
                let (n, nudge_ms) = match step {
                    Step::AwaitMessages(n) => (n, None),
                    Step::AwaitWithNudge { n, nudge_ms } => (n, Some(*nudge_ms)),
                    _ => unreachable!(),
                };
                let started = Instant::now();
                let mut nudged = false;
                let deadline = Instant::now() + Duration::from_secs(20);
                while received.len() < *n && !eof {
                    // extract complete messages
                    loop {
                        if chunked {
                            match take_chunked(&mut inbuf) {
                                Some(m) => received.push(m),
                                None => break,
                            }
                        } else {
                            match find(&inbuf, MARKER) {
                                Some(i) => {
                                    let m: Vec<u8> = inbuf.drain(..i + MARKER.len()).collect();
                                    received.push(m);
                                }
                                None => break,
                            }
                        }
                    }
                    if received.len() >= *n {
                        break;
                    }
                    let mut rem = deadline.saturating_duration_since(Instant::now());
                    if rem.is_zero() {
                        marks.error = Some(format!(
                            "timeout waiting for client message {} (have {})",
                            n,
                            received.len()
                        ));
                        break;
                    }
                    if let (Some(ms), false) = (nudge_ms, nudged) {
                        rem = rem.min(Duration::from_millis(ms).saturating_sub(started.elapsed()));
                    }
                    match tokio::time::timeout(rem, io.read_some()).await {
                        Ok(Ok(b)) if b.is_empty() => eof = true,
                        Ok(Ok(b)) => inbuf.extend_from_slice(&b),
                        Ok(Err(e)) => {
                            marks.error = Some(format!("read: {e}"));
                            eof = true;
                        }
                        Err(_) => {
                            if let (Some(ms), false) = (nudge_ms, nudged) {
                                if started.elapsed() >= Duration::from_millis(ms) {
                                    nudged = true;
                                    marks.marks.push((format!("nudge-{n}"), mono_ns()));
                                    save(&marks);
                                    if io.write_unit(b"\n").await.is_err() {
                                        eof = true;
                                    }
                                }
                            }
                        }
                    }
                }
                if received.len() < *n {
                    if marks.error.is_none() {
                        marks.error = Some(format!(
                            "peer closed after {} of {} expected messages",
                            received.len(),
                            n
                        ));
                    }
                    break;
                }
            }
            Step::Reply {
                payloads,
                cuts,
                pause_ms,
            } => {
                let mut stream = Vec::new();
                for p in payloads {
                    // received[0] is the client hello
                    let id = received
                        .get(1 + answered)
                        .map(|m| message_id(m))
                        .unwrap_or_else(|| "0".into());
                    answered += 1;
                    stream.extend_from_slice(&reply_message(&id, p));
                }
                let mut points: Vec<usize> = cuts
                    .iter()
                    .copied()
                    .filter(|c| *c > 0 && *c < stream.len())
                    .collect();
                points.sort_unstable();
                points.dedup();
                points.push(stream.len());
                let mut start = 0;
                let mut failed = false;
                for (k, end) in points.iter().enumerate() {
                    if let Err(e) = io.write_unit(&stream[start..*end]).await {
                        marks.error = Some(format!("write: {e}"));
                        failed = true;
                        break;
                    }
                    start = *end;
                    if k + 1 < points.len() && *pause_ms > 0 {
                        tokio::time::sleep(Duration::from_millis(*pause_ms)).await;
                    }
                }
                if failed {
                    break;
                }
            }
            Step::ReplyNegotiated { payloads } if !chunked => {
                for p in payloads {
                    let id = received
                        .get(1 + answered)
                        .map(|m| message_id(m))
                        .unwrap_or_else(|| "0".into());
                    answered += 1;
                    if let Err(e) = io.write_unit(&reply_message(&id, p)).await {
                        marks.error = Some(format!("write: {e}"));
                        break;
                    }
                }
            }
            Step::ReplyChunked { payloads } | Step::ReplyNegotiated { payloads } => {
                for p in payloads {
                    let id = received
                        .get(1 + answered)
                        .map(|m| message_id(m))
                        .unwrap_or_else(|| "0".into());
                    answered += 1;
                    let body = reply_message(&id, p);
                    let body = &body[..body.len() - MARKER.len()];
                    let mut framed = format!("\n#{}\n", body.len()).into_bytes();
                    framed.extend_from_slice(body);
                    framed.extend_from_slice(b"\n##\n");
                    if let Err(e) = io.write_unit(&framed).await {
                        marks.error = Some(format!("write: {e}"));
                        break;
                    }
                }
            }
            Step::NegotiateFraming { server_has_11 } => {
                let client_11 = received.first().is_some_and(|h| {
                    String::from_utf8_lossy(h).contains("urn:ietf:params:netconf:base:1.1")
                });
                chunked = *server_has_11 && client_11;
                marks.chunked = chunked;
            }
            Step::Close { abrupt } => {
                io.close(*abrupt).await;
                marks.marks.push(("closed".into(), mono_ns()));
                break;
            }
            Step::HalfClose => {
                io.half_close().await;
                marks.marks.push(("half-closed".into(), mono_ns()));
            }
            Step::HoldMs(ms) => {
                let deadline = Instant::now() + Duration::from_millis(*ms);
                while !eof {
                    let rem = deadline.saturating_duration_since(Instant::now());
                    if rem.is_zero() {
                        break;
                    }
                    match tokio::time::timeout(rem, io.read_some()).await {
                        Ok(Ok(b)) if b.is_empty() => eof = true,
                        Ok(Ok(b)) => inbuf.extend_from_slice(&b),
                        Ok(Err(_)) => eof = true,
                        Err(_) => break,
                    }
                }
            }
        }
    }
    marks.received = received
        .iter()
        .map(|m| String::from_utf8_lossy(m).to_string())
        .collect();
    save(&marks);
    marks
}

/// take one RFC 6242 chunked message from the buffer (`\n#<len>\n<data>...\n##\n`)
fn take_chunked(buf: &mut Vec<u8>) -> Option<Vec<u8>> {
    let mut pos = 0;
    let mut msg = Vec::new();
    loop {
        if buf.len() < pos + 4 {
            return None;
        }
        if &buf[pos..pos + 2] != b"\n#" {
            // not chunked framing: wait forever (a conforming server cannot parse this)
            return None;
        }
        if buf[pos + 2] == b'#' {
            if buf.get(pos + 3) == Some(&b'\n') {
                buf.drain(..pos + 4);
                return Some(msg);
            }
            return None;
        }
        let nl = buf[pos + 2..].iter().position(|b| *b == b'\n')? + pos + 2;
        let len: usize = std::str::from_utf8(&buf[pos + 2..nl]).ok()?.parse().ok()?;
        if buf.len() < nl + 1 + len {
            return None;
        }
        msg.extend_from_slice(&buf[nl + 1..nl + 1 + len]);
        pos = nl + 1 + len;
    }
}

pub fn hello_bytes(caps: &[&str], session_id: u32) -> Vec<u8> {
    let mut s = format!("<hello xmlns=\"{NS_BASE}\">\n  <capabilities>\n");
    for c in caps {
        s.push_str(&format!("    <capability>{c}</capability>\n"));
    }
    s.push_str(&format!(
        "  </capabilities>\n  <session-id>{session_id}</session-id>\n</hello>\n]]>]]>"
    ));
    s.into_bytes()
}
