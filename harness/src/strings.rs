//! Generators for adversarial text values and well-formed XML fragments.

use proptest::prelude::*;

use crate::xmlstrict::{escape_attr, escape_text};

const PIECES: &[&str] = &[
    "<", ">", "&", "'", "\"", "]]>", "]]>]]>", "]]>]]", "]]", "]", "<!--", "-->", "<![CDATA[",
    "&amp;", "&lt;", "&#60;", "&#x3c;", "&bogus;", "</rpc>", "<a>", "/>", "é", "ü", "中文", "\u{FFFD}",
    "\u{1F600}", "\u{10FFFF}", " ", "  ", "=", "%", "%41", "/", "\\", "{", "}", "$(x)", "`", ";",
];

fn piece(allow_ctl_ws: bool) -> BoxedStrategy<String> {
    let mut choices: Vec<BoxedStrategy<String>> = vec![
        "[A-Za-z0-9_.-]{1,12}".boxed(),
        (0..PIECES.len()).prop_map(|i| PIECES[i].to_string()).boxed(),
        (0..PIECES.len()).prop_map(|i| PIECES[i].to_string()).boxed(),
    ];
    if allow_ctl_ws {
        choices.push(prop_oneof![Just("\n".to_string()), Just("\t".to_string())].boxed());
    }
    proptest::strategy::Union::new(choices).boxed()
}

/// any sequence of XML `Char`s without `\r`; `allow_ctl_ws` adds tab / newline
pub fn nasty_text(allow_ctl_ws: bool) -> impl Strategy<Value = String> {
    prop_oneof![
        1 => Just(String::new()),
        12 => prop::collection::vec(piece(allow_ctl_ws), 1..7).prop_map(|v| v.concat()),
        1 => (prop::collection::vec(piece(allow_ctl_ws), 1..4), 50usize..400)
            .prop_map(|(v, n)| v.concat().repeat(n).chars().take(4096).collect()),
    ]
}

pub fn is_nontrivial_text(s: &str) -> bool {
    s.contains(['<', '>', '&', '\'', '"']) || s.contains("]]")
}

/// a syntactically valid absolute URI (RFC 3986) with the given scheme, containing characters
/// that need care in XML (`&`, `'`, `%`)
pub fn uri(scheme: &'static str) -> impl Strategy<Value = String> {
    (
        "[a-z][a-z0-9.-]{0,10}",
        prop::collection::vec("[A-Za-z0-9._~!$&'()*+,;=:@%-]{1,8}", 0..4),
        prop::option::of("[A-Za-z0-9._~!$&'()*+,;=:@/?-]{0,12}"),
        // userinfo (RFC 3986 3.2.1): user, user:password, user: (empty password), :password
        prop::option::weighted(
            0.35,
            ("[A-Za-z0-9._~!$&'()*+,;=-]{0,6}", prop::option::of("[A-Za-z0-9._~!$&'()*+,;=:%-]{0,8}")),
        ),
        prop::option::weighted(0.2, 1u16..65535),
        prop::option::weighted(0.2, "[A-Za-z0-9._~!$&'()*+,;=:@/?-]{0,8}"),
        prop::bool::weighted(0.1),
    )
        .prop_map(move |(host, path, query, userinfo, port, fragment, v6)| {
            // '%' must introduce a pct-encoded triplet
            let fix = |s: &str| s.replace('%', "%26");
            let mut u = format!("{scheme}://");
            if let Some((user, password)) = userinfo {
                u.push_str(&user);
                if let Some(pw) = password {
                    u.push(':');
                    u.push_str(&fix(&pw));
                }
                u.push('@');
            }
            if v6 {
                u.push_str("[2001:db8::1]");
            } else {
                u.push_str(&host);
            }
            if let Some(p) = port {
                u.push_str(&format!(":{p}"));
            }
            for p in path {
                u.push('/');
                u.push_str(&fix(&p));
            }
            if let Some(q) = query {
                u.push('?');
                u.push_str(&q);
            }
            if let Some(f) = fragment {
                u.push('#');
                u.push_str(&f);
            }
            u
        })
}

#[derive(Debug, Clone)]
pub struct FragElem {
    name: String,
    attrs: Vec<(String, String)>,
    kids: Vec<FragNode>,
    single_quote: bool,
}

#[derive(Debug, Clone)]
pub enum FragNode {
    E(FragElem),
    T(String),
    C(String),
}

fn render_frag(e: &FragElem, out: &mut String) {
    out.push('<');
    out.push_str(&e.name);
    let q = if e.single_quote { '\'' } else { '"' };
    for (k, v) in &e.attrs {
        out.push_str(&format!(" {k}={q}{}{q}", escape_attr(v, q)));
    }
    if e.kids.is_empty() {
        out.push_str("/>");
        return;
    }
    out.push('>');
    for k in &e.kids {
        match k {
            FragNode::E(c) => render_frag(c, out),
            FragNode::T(t) => out.push_str(&escape_text(t)),
            FragNode::C(c) => out.push_str(&format!("<!--{c}-->")),
        }
    }
    out.push_str(&format!("</{}>", e.name));
}

fn frag_elem() -> impl Strategy<Value = FragElem> {
    let name = "[a-z][a-z0-9-]{0,8}(:[a-z][a-z0-9]{0,4})?";
    let leaf = (
        name,
        prop::collection::vec(("[a-z][a-z0-9-]{0,6}", nasty_text(false)), 0..3),
        prop::option::of(nasty_text(true)),
        any::<bool>(),
    )
        .prop_map(|(name, mut attrs, text, single_quote)| {
            attrs.sort_by(|a, b| a.0.cmp(&b.0));
            attrs.dedup_by(|a, b| a.0 == b.0);
            FragElem {
                name,
                attrs,
                kids: text.into_iter().filter(|t| !t.is_empty()).map(FragNode::T).collect(),
                single_quote,
            }
        });
    leaf.prop_recursive(3, 12, 4, move |inner| {
        (
            "[a-z][a-z0-9-]{0,8}",
            prop::collection::vec(
                prop_oneof![
                    4 => inner.prop_map(FragNode::E),
                    1 => "[ A-Za-z0-9<>&'\"]{0,12}".prop_map(|c| FragNode::C(c.replace("--", "- -").trim_end_matches('-').to_string())),
                    1 => nasty_text(true).prop_filter("non-empty", |t| !t.is_empty()).prop_map(FragNode::T),
                ],
                0..4,
            ),
        )
            .prop_map(|(name, kids)| {
                // merge adjacent text nodes is unnecessary: rendering concatenates them anyway
                FragElem {
                    name,
                    attrs: Vec::new(),
                    kids,
                    single_quote: false,
                }
            })
    })
}

/// a well-formed XML fragment (sequence of elements) that never contains the literal `]]>]]>`
pub fn xml_fragment() -> impl Strategy<Value = String> {
    prop::collection::vec(frag_elem(), 1..3).prop_map(|elems| {
        let mut out = String::new();
        for e in &elems {
            render_frag(e, &mut out);
        }
        out
    })
}
