//! Shared machinery: property parts, the proptest-driven runner, evidence and replay files.
//!
//! A *property* (C01..C20) is decided by one or more *parts*; each part is a generator
//! (proptest `Strategy`) plus an executable oracle (`check`). The runner drives every part with a
//! deterministic RNG derived from `VERIF_SEED`, counts what the generator produced (classes,
//! distinct non-trivial cases), lets proptest shrink the first failure, writes the minimal case as
//! a replay file and reports it. Known findings (exact signatures listed in
//! `/verif/known_findings.json`) are reported as `KNOWN-FINDING:` and do not stop the search.

use std::{
    collections::{hash_map::DefaultHasher, BTreeMap, HashSet},
    fmt::Debug,
    hash::{Hash, Hasher},
    path::{Path, PathBuf},
    sync::Mutex,
    time::{Duration, Instant},
};

use proptest::{
    strategy::{BoxedStrategy, Strategy},
    test_runner::{Config, RngAlgorithm, TestCaseError, TestError, TestRng, TestRunner},
};
use serde::{de::DeserializeOwned, Serialize};
use serde_json::{json, Value};

thread_local! {
    /// (location, message) of the last panic on this thread (set by the panic hook in main)
    pub static LAST_PANIC: std::cell::RefCell<Option<(String, String)>> =
        const { std::cell::RefCell::new(None) };
}

/// Run `f`, turning a panic into `Err((location, message))`.
pub fn catch<T>(f: impl FnOnce() -> T) -> Result<T, (String, String)> {
    LAST_PANIC.with(|p| *p.borrow_mut() = None);
    match std::panic::catch_unwind(std::panic::AssertUnwindSafe(f)) {
        Ok(v) => Ok(v),
        Err(_) => Err(LAST_PANIC
            .with(|p| p.borrow_mut().take())
            .unwrap_or_else(|| ("?".into(), "?".into()))),
    }
}

#[derive(Debug, Clone, Copy, PartialEq, Eq)]
pub enum Tier {
    Quick,
    Thorough,
}

impl Tier {
    pub fn as_str(self) -> &'static str {
        match self {
            Self::Quick => "quick",
            Self::Thorough => "thorough",
        }
    }
    /// pick a size by tier
    pub fn pick<T>(self, quick: T, thorough: T) -> T {
        match self {
            Self::Quick => quick,
            Self::Thorough => thorough,
        }
    }
}

/// What one execution of the oracle observed.
#[derive(Debug, Clone, Default)]
pub struct Obs {
    /// generator / behaviour classes this case falls into (for the histogram)
    pub classes: Vec<String>,
    /// non-trivial by the part's stated rule
    pub nontrivial: bool,
    /// failures found: (signature, human-readable message)
    pub failures: Vec<(String, String)>,
    /// sub-cases excluded because they would only re-trigger a listed known finding
    pub excluded: u64,
    /// additional number of evaluations performed inside this case (e.g. per-step checks)
    pub inner_evals: u64,
}

impl Obs {
    pub fn class<S: Into<String>>(&mut self, c: S) {
        self.classes.push(c.into());
    }
    pub fn fail<S: Into<String>, M: Into<String>>(&mut self, sig: S, msg: M) {
        self.failures.push((sig.into(), msg.into()));
    }
}

/// One generator + oracle pair.
pub trait Prop: Sync + Send + 'static {
    type Case: Debug + Clone + Serialize + DeserializeOwned + Send + 'static;
    /// short name of the part (used in replay files and evidence)
    fn name(&self) -> &'static str;
    /// how cases are generated and what makes one non-trivial
    fn rule(&self) -> String;
    fn strategy(&self, tier: Tier) -> BoxedStrategy<Self::Case>;
    /// number of cases to generate at this tier
    fn cases(&self, tier: Tier) -> u32;
    /// run the oracle on one case
    fn check(&self, case: &Self::Case) -> Obs;
    /// how many shrinking steps a failure may take (each one runs the check again; parts whose
    /// cases start processes or real connections keep this small)
    fn max_shrink_iters(&self) -> u32 {
        1500
    }
    /// a single case that runs longer than this is a hang (see `hang_is_violation`)
    fn case_time_limit_s(&self) -> u64 {
        300
    }
    /// true only where "returns in bounded time" is the property itself (C14): the hang is then
    /// reported as a violation with the case as replay; everywhere else it ends the run as
    /// inconclusive (exit 2)
    fn hang_is_violation(&self) -> bool {
        false
    }
    /// cases that are always run first (regressions of fixed defects, hand-picked corners)
    fn fixed_cases(&self) -> Vec<Self::Case> {
        Vec::new()
    }
    /// whether cases may be run on several threads at once (false for parts that use
    /// process-global state such as signals or environment variables)
    fn parallel(&self) -> bool {
        true
    }
    fn assumptions(&self) -> Vec<String> {
        Vec::new()
    }
    /// upper bound on worker threads (timing-sensitive engines)
    fn max_threads(&self) -> usize {
        usize::MAX
    }
    /// true if `cases` covers a finite space completely
    fn exhaustive(&self, _tier: Tier) -> bool {
        false
    }
}

/// Object-safe view of a part.
pub trait Part: Sync + Send {
    fn name(&self) -> &'static str;
    fn run(&self, ctx: &RunCtx) -> PartReport;
    fn replay(&self, case: &Value) -> Result<Obs, String>;
    /// (seconds, is a hang the violation itself?) for one replayed case
    fn replay_limit(&self) -> (u64, bool) {
        (300, false)
    }
}

pub struct RunCtx {
    pub property: &'static str,
    pub tier: Tier,
    pub seed: u64,
    pub threads: usize,
    pub known: KnownFindings,
}

#[derive(Debug, Default)]
pub struct PartReport {
    pub name: String,
    pub rule: String,
    pub evaluations: u64,
    pub nontrivial_hashes: HashSet<u64>,
    pub classes: BTreeMap<String, u64>,
    pub samples: Vec<Value>,
    pub known_hits: BTreeMap<String, u64>,
    pub excluded: u64,
    pub assumptions: Vec<String>,
    pub exhaustive: bool,
    /// (signature, message, minimal case as JSON)
    pub violation: Option<(String, String, Value)>,
    pub wall_s: f64,
}

#[derive(Debug, Clone, Default)]
pub struct KnownFindings {
    /// (property, signature) -> description, status == "known"
    pub known: Vec<(String, String, String)>,
}

impl KnownFindings {
    pub fn load(path: &Path) -> Self {
        let mut out = Self::default();
        let Ok(text) = std::fs::read_to_string(path) else {
            return out;
        };
        let Ok(v) = serde_json::from_str::<Value>(&text) else {
            eprintln!("warning: cannot parse {}", path.display());
            return out;
        };
        for f in v["findings"].as_array().cloned().unwrap_or_default() {
            if f["status"].as_str() == Some("known") {
                out.known.push((
                    f["property"].as_str().unwrap_or("").to_string(),
                    f["signature"].as_str().unwrap_or("").to_string(),
                    f["what"].as_str().unwrap_or("").to_string(),
                ));
            }
        }
        out
    }
    pub fn is_known(&self, property: &str, sig: &str) -> bool {
        // survey mode (development aid): collect every failure signature instead of stopping
        if std::env::var_os("VERIF_SURVEY").is_some() && !sig.starts_with("harness") {
            return true;
        }
        self.known
            .iter()
            .any(|(p, s, _)| p == property && s == sig)
    }
    pub fn describe(&self, property: &str, sig: &str) -> String {
        self.known
            .iter()
            .find(|(p, s, _)| p == property && s == sig)
            .map(|(_, _, d)| d.clone())
            .unwrap_or_default()
    }
}

fn hash_case<C: Serialize>(case: &C) -> u64 {
    let mut h = DefaultHasher::new();
    serde_json::to_string(case).unwrap_or_default().hash(&mut h);
    h.finish()
}

#[derive(Default)]
struct Acc {
    evaluations: u64,
    nontrivial: HashSet<u64>,
    classes: BTreeMap<String, u64>,
    samples: Vec<Value>,
    known_hits: BTreeMap<String, u64>,
    excluded: u64,
    failed: bool,
}

impl Acc {
    fn merge(&mut self, other: Acc) {
        self.evaluations += other.evaluations;
        self.nontrivial.extend(other.nontrivial);
        for (k, v) in other.classes {
            *self.classes.entry(k).or_default() += v;
        }
        for s in other.samples {
            if self.samples.len() < 6 {
                self.samples.push(s);
            }
        }
        for (k, v) in other.known_hits {
            *self.known_hits.entry(k).or_default() += v;
        }
        self.excluded += other.excluded;
    }
}

/// Evaluate one case: returns the first failure that is not a known finding.
// ---- per-case watchdog -------------------------------------------------------------------------

struct Watched {
    since: Instant,
    limit: Duration,
    hang_is_violation: bool,
    property: &'static str,
    part: &'static str,
    seed: u64,
    tier: Tier,
    case: Box<dyn Fn() -> Value + Send>,
}

static WATCH: Mutex<Option<std::collections::HashMap<std::thread::ThreadId, Watched>>> = Mutex::new(None);

/// Started once per process: a case that overruns its limit cannot be interrupted (it may sit in a
/// loop that never yields), so the monitor reports and ends the process itself.
fn start_watchdog() {
    static STARTED: std::sync::Once = std::sync::Once::new();
    STARTED.call_once(|| {
        *WATCH.lock().unwrap() = Some(Default::default());
        std::thread::spawn(|| loop {
            std::thread::sleep(Duration::from_millis(250));
            let mut guard = WATCH.lock().unwrap();
            let Some(map) = guard.as_mut() else { continue };
            let Some(w) = map.values().find(|w| w.since.elapsed() > w.limit) else { continue };
            let case = (w.case)();
            if w.hang_is_violation {
                let root = verif_root();
                let dir = root.join("replays");
                let _ = std::fs::create_dir_all(&dir);
                let msg = format!("the call did not return within {} s", w.limit.as_secs());
                let body = json!({
                    "property": w.property, "part": w.part, "signature": "never-returns",
                    "message": msg, "seed": w.seed, "tier": w.tier.as_str(), "case": case,
                });
                let mut h = DefaultHasher::new();
                body.to_string().hash(&mut h);
                let path = dir.join(format!("{}-{}-{}-{:08x}.json", w.property, w.part, w.seed, h.finish() as u32));
                let _ = std::fs::write(&path, serde_json::to_string_pretty(&body).unwrap());
                eprintln!("violation in part {}: [never-returns] {msg}", w.part);
                println!("VIOLATION property={} replay={}", w.property, path.display());
                std::process::exit(1);
            }
            eprintln!(
                "INCONCLUSIVE: a case of {}:{} has been running for more than {} s (harness watchdog); case: {}",
                w.property, w.part, w.limit.as_secs(), case
            );
            std::process::exit(2);
        });
    });
}

/// Watch the calling thread until the guard is dropped.
pub struct WatchGuard(std::thread::ThreadId);

impl Drop for WatchGuard {
    fn drop(&mut self) {
        if let Some(map) = WATCH.lock().unwrap().as_mut() {
            map.remove(&self.0);
        }
    }
}

#[allow(clippy::too_many_arguments)]
pub fn watch_case(
    property: &'static str,
    part: &'static str,
    limit_s: u64,
    hang_is_violation: bool,
    seed: u64,
    tier: Tier,
    case: Box<dyn Fn() -> Value + Send>,
) -> WatchGuard {
    start_watchdog();
    let tid = std::thread::current().id();
    let w = Watched {
        since: Instant::now(),
        limit: Duration::from_secs(limit_s),
        hang_is_violation,
        property,
        part,
        seed,
        tier,
        case,
    };
    if let Some(map) = WATCH.lock().unwrap().as_mut() {
        map.insert(tid, w);
    }
    WatchGuard(tid)
}

fn eval_case<P: Prop>(
    prop: &P,
    ctx: &RunCtx,
    case: &P::Case,
    acc: &mut Acc,
) -> Option<(String, String)> {
    start_watchdog();
    let tid = std::thread::current().id();
    {
        let owned = case.clone();
        let w = Watched {
            since: Instant::now(),
            limit: Duration::from_secs(prop.case_time_limit_s()),
            hang_is_violation: prop.hang_is_violation(),
            property: ctx.property,
            part: prop.name(),
            seed: ctx.seed,
            tier: ctx.tier,
            case: Box::new(move || serde_json::to_value(&owned).unwrap_or(Value::Null)),
        };
        if let Some(map) = WATCH.lock().unwrap().as_mut() {
            map.insert(tid, w);
        }
    }
    let r = eval_case_inner(prop, ctx, case, acc);
    if let Some(map) = WATCH.lock().unwrap().as_mut() {
        map.remove(&tid);
    }
    r
}

fn eval_case_inner<P: Prop>(
    prop: &P,
    ctx: &RunCtx,
    case: &P::Case,
    acc: &mut Acc,
) -> Option<(String, String)> {
    let obs = match std::panic::catch_unwind(std::panic::AssertUnwindSafe(|| prop.check(case))) {
        Ok(obs) => obs,
        Err(p) => {
            let msg = p
                .downcast_ref::<String>()
                .cloned()
                .or_else(|| p.downcast_ref::<&str>().map(|s| (*s).to_string()))
                .unwrap_or_else(|| "<non-string panic>".into());
            let mut o = Obs::default();
            o.fail("harness-panic", format!("oracle/harness panicked: {msg}"));
            o
        }
    };
    let mut first = None;
    let mut known_here = Vec::new();
    for (sig, msg) in &obs.failures {
        if ctx.known.is_known(ctx.property, sig) {
            known_here.push(sig.clone());
        } else if first.is_none() {
            first = Some((sig.clone(), msg.clone()));
        }
    }
    if !acc.failed {
        acc.evaluations += 1 + obs.inner_evals;
        acc.excluded += obs.excluded;
        for c in &obs.classes {
            *acc.classes.entry(c.clone()).or_default() += 1;
        }
        for k in known_here {
            *acc.known_hits.entry(k).or_default() += 1;
        }
        if obs.nontrivial {
            let h = hash_case(case);
            if acc.nontrivial.insert(h) && acc.samples.len() < 3 {
                acc.samples
                    .push(serde_json::to_value(case).unwrap_or(Value::Null));
            }
        }
        if first.is_some() {
            acc.failed = true;
        }
    }
    first
}

pub struct PropPart<P: Prop>(pub P);

impl<P: Prop> Part for PropPart<P> {
    fn name(&self) -> &'static str {
        self.0.name()
    }

    fn run(&self, ctx: &RunCtx) -> PartReport {
        let start = Instant::now();
        let prop = &self.0;
        let mut total = Acc::default();
        let mut violation: Option<(String, String, Value)> = None;

        // 1. fixed cases (regressions / corners), sequentially
        for case in prop.fixed_cases() {
            let mut acc = Acc::default();
            if let Some((sig, msg)) = eval_case(prop, ctx, &case, &mut acc) {
                if violation.is_none() {
                    violation = Some((sig, msg, serde_json::to_value(&case).unwrap_or(Value::Null)));
                }
            }
            acc.failed = false;
            total.merge(acc);
        }

        // 2. generated cases
        let cases = prop.cases(ctx.tier);
        let threads = if prop.parallel() {
            ctx.threads
                .max(1)
                .min(cases.max(1) as usize)
                .min(prop.max_threads().max(1))
        } else {
            1
        };
        let per = cases / threads as u32;
        let extra = cases % threads as u32;
        let results: Mutex<Vec<(usize, Acc, Option<(String, String, Value)>)>> =
            Mutex::new(Vec::new());
        if violation.is_none() && cases > 0 {
            std::thread::scope(|scope| {
                for t in 0..threads {
                    let results = &results;
                    let n = per + u32::from((t as u32) < extra);
                    scope.spawn(move || {
                        let mut seed = [0u8; 32];
                        seed[..8].copy_from_slice(&ctx.seed.to_le_bytes());
                        seed[8..16].copy_from_slice(&(t as u64).to_le_bytes());
                        let mut h = DefaultHasher::new();
                        (ctx.property, prop.name()).hash(&mut h);
                        seed[16..24].copy_from_slice(&h.finish().to_le_bytes());
                        let rng = TestRng::from_seed(RngAlgorithm::ChaCha, &seed);
                        let config = Config {
                            cases: n,
                            failure_persistence: None,
                            max_shrink_iters: prop.max_shrink_iters(),
                            max_global_rejects: 65536,
                            ..Config::default()
                        };
                        let mut runner = TestRunner::new_with_rng(config, rng);
                        let acc = std::cell::RefCell::new(Acc::default());
                        let last_fail = std::cell::RefCell::new(None::<(String, String)>);
                        let result = runner.run(&prop.strategy(ctx.tier), |case| {
                            let mut a = acc.borrow_mut();
                            match eval_case(prop, ctx, &case, &mut a) {
                                None => Ok(()),
                                Some((sig, msg)) => {
                                    *last_fail.borrow_mut() = Some((sig.clone(), msg.clone()));
                                    Err(TestCaseError::fail(format!("{sig}: {msg}")))
                                }
                            }
                        });
                        let viol = match result {
                            Ok(()) => None,
                            Err(TestError::Fail(_, minimal)) => {
                                // re-evaluate the minimal case to get its own signature/message
                                let mut scratch = Acc::default();
                                let (sig, msg) = eval_case(prop, ctx, &minimal, &mut scratch)
                                    .or_else(|| last_fail.borrow().clone())
                                    .unwrap_or_else(|| ("unknown".into(), "unknown".into()));
                                Some((
                                    sig,
                                    msg,
                                    serde_json::to_value(&minimal).unwrap_or(Value::Null),
                                ))
                            }
                            Err(TestError::Abort(reason)) => Some((
                                "harness-abort".into(),
                                format!("proptest aborted: {reason}"),
                                Value::Null,
                            )),
                        };
                        results.lock().unwrap().push((t, acc.into_inner(), viol));
                    });
                }
            });
        }
        let mut results = results.into_inner().unwrap();
        results.sort_by_key(|r| r.0);
        for (_, acc, viol) in results {
            total.merge(acc);
            if violation.is_none() {
                violation = viol;
            }
        }
        PartReport {
            name: prop.name().to_string(),
            rule: prop.rule(),
            evaluations: total.evaluations,
            nontrivial_hashes: total.nontrivial,
            classes: total.classes,
            samples: total.samples,
            known_hits: total.known_hits,
            excluded: total.excluded,
            assumptions: prop.assumptions(),
            exhaustive: prop.exhaustive(ctx.tier),
            violation,
            wall_s: start.elapsed().as_secs_f64(),
        }
    }

    fn replay(&self, case: &Value) -> Result<Obs, String> {
        let case: P::Case =
            serde_json::from_value(case.clone()).map_err(|e| format!("bad replay case: {e}"))?;
        Ok(self.0.check(&case))
    }
    fn replay_limit(&self) -> (u64, bool) {
        (self.0.case_time_limit_s(), self.0.hang_is_violation())
    }
}

pub struct Property {
    pub id: &'static str,
    pub level: &'static str,
    pub parts: Vec<Box<dyn Part>>,
}

pub fn verif_root() -> PathBuf {
    std::env::var_os("VERIF_ROOT")
        .map(PathBuf::from)
        .unwrap_or_else(|| PathBuf::from("/verif"))
}

/// Run all parts of a property, write evidence, print verdict lines. Returns the exit code.
pub fn run_property(prop: &Property, tier: Tier, seed: u64, only_part: Option<&str>) -> i32 {
    let start = Instant::now();
    let root = verif_root();
    let known = KnownFindings::load(&root.join("known_findings.json"));
    let threads = std::env::var("VERIF_THREADS")
        .ok()
        .and_then(|s| s.parse().ok())
        .unwrap_or_else(|| {
            std::thread::available_parallelism()
                .map(|n| n.get())
                .unwrap_or(4)
                .min(16)
        });
    let ctx = RunCtx {
        property: prop.id,
        tier,
        seed,
        threads,
        known,
    };
    let mut reports = Vec::new();
    crate::xmlstrict::xcheck_enable(match tier {
        Tier::Quick => 30_000,
        Tier::Thorough => 400_000,
    });
    for part in &prop.parts {
        if let Some(only) = only_part {
            if part.name() != only {
                continue;
            }
        }
        let rep = part.run(&ctx);
        eprintln!(
            "[{}:{}] evaluations={} distinct_nontrivial={} known_hits={:?} wall={:.1}s{}",
            prop.id,
            rep.name,
            rep.evaluations,
            rep.nontrivial_hashes.len(),
            rep.known_hits,
            rep.wall_s,
            if rep.violation.is_some() { " VIOLATION" } else { "" }
        );
        reports.push(rep);
    }
    // verdict
    let mut exit = 0;
    let mut violations = 0;
    let mut known_seen: BTreeMap<String, u64> = BTreeMap::new();
    for rep in &reports {
        for (k, v) in &rep.known_hits {
            *known_seen.entry(k.clone()).or_default() += v;
        }
    }
    // every listed known finding of this property is printed (the file is the source of truth)
    for (p, sig, what) in &ctx.known.known {
        if p == prop.id {
            let hits = known_seen.get(sig).copied().unwrap_or(0);
            println!(
                "KNOWN-FINDING: property={} signature={} reproduced_in_this_run={} {}",
                prop.id, sig, hits, what
            );
        }
    }
    for rep in &reports {
        if let Some((sig, msg, _)) = &rep.violation {
            if sig.starts_with("harness-") {
                // the harness could not set its own world up (ports, child processes, peers): that
                // says nothing about the property
                eprintln!("INCONCLUSIVE: part {}: [{}] {}", rep.name, sig, msg);
                if exit == 0 {
                    exit = 2;
                }
                continue;
            }
        }
        if let Some((sig, msg, case)) = &rep.violation {
            violations += 1;
            exit = 1;
            let dir = root.join("replays");
            let _ = std::fs::create_dir_all(&dir);
            let body = json!({
                "property": prop.id,
                "part": rep.name,
                "signature": sig,
                "message": msg,
                "seed": seed,
                "tier": tier.as_str(),
                "case": case,
            });
            let mut h = DefaultHasher::new();
            body.to_string().hash(&mut h);
            let path = dir.join(format!(
                "{}-{}-{}-{:08x}.json",
                prop.id,
                rep.name,
                seed,
                h.finish() as u32
            ));
            let _ = std::fs::write(&path, serde_json::to_string_pretty(&body).unwrap());
            eprintln!("violation in part {}: [{}] {}", rep.name, sig, msg);
            println!("VIOLATION property={} replay={}", prop.id, path.display());
        }
    }
    let xcheck = cross_check_strict_parser(prop.id);
    if let Some(x) = &xcheck {
        if x["disagreements"].as_u64().unwrap_or(0) > 0 && exit == 0 {
            eprintln!(
                "INCONCLUSIVE: the harness's strict XML parser and expat disagree on {} of {} documents (first: {}); the well-formedness oracle cannot be trusted for this run",
                x["disagreements"], x["documents"], x["first_disagreement"]
            );
            exit = 2;
        }
    }
    write_evidence(prop, tier, seed, &reports, violations, start.elapsed().as_secs_f64(), xcheck);
    exit
}

/// Hand every distinct document the strict parser judged in this run (up to the cap) to Python's
/// expat binding and compare verdicts. `None` when nothing was parsed or python3 is unavailable
/// (recorded as such in the evidence). A disagreement never becomes a violation: it means the
/// oracle is unsound or incomplete for that input, and the run is inconclusive (exit 2).
fn cross_check_strict_parser(id: &str) -> Option<Value> {
    let (calls, kept) = crate::xmlstrict::xcheck_take();
    if kept.is_empty() {
        return None;
    }
    let root = verif_root();
    let dir = root.join("target").join("xcheck");
    let _ = std::fs::create_dir_all(&dir);
    let path = dir.join(format!("{id}-{}.jsonl", std::process::id()));
    let mut body = String::new();
    for (doc, ok) in &kept {
        body.push_str(&json!({"d": doc, "wf": ok}).to_string());
        body.push('\n');
    }
    if std::fs::write(&path, body).is_err() {
        return Some(json!({"documents": kept.len(), "ran": false, "why": "cannot write the sample"}));
    }
    let out = std::process::Command::new("python3")
        .arg(root.join("tools").join("expat_check.py"))
        .arg(&path)
        .output();
    if std::env::var_os("VERIF_XCHECK_KEEP").is_none() {
        let _ = std::fs::remove_file(&path);
    }
    match out {
        Ok(o) if o.status.success() => {
            match serde_json::from_slice::<Value>(&o.stdout) {
                Ok(mut v) => {
                    v["ran"] = json!(true);
                    v["strict_parser_calls"] = json!(calls);
                    Some(v)
                }
                Err(e) => Some(json!({"documents": kept.len(), "ran": false, "why": format!("unreadable result: {e}")})),
            }
        }
        Ok(o) => Some(json!({"documents": kept.len(), "ran": false, "why": String::from_utf8_lossy(&o.stderr).chars().take(300).collect::<String>()})),
        Err(e) => Some(json!({"documents": kept.len(), "ran": false, "why": format!("python3: {e}")})),
    }
}

fn write_evidence(
    prop: &Property,
    tier: Tier,
    seed: u64,
    reports: &[PartReport],
    violations: i32,
    wall_s: f64,
    xcheck: Option<Value>,
) {
    let root = verif_root();
    let dir = root.join("evidence");
    let _ = std::fs::create_dir_all(&dir);
    let evaluations: u64 = reports.iter().map(|r| r.evaluations).sum();
    let distinct: usize = reports.iter().map(|r| r.nontrivial_hashes.len()).sum();
    let mut samples = Vec::new();
    for r in reports {
        for s in r.samples.iter().take(3) {
            samples.push(json!({"part": r.name, "case": s}));
        }
    }
    let mut assumptions: Vec<String> = Vec::new();
    for r in reports {
        for a in &r.assumptions {
            if !assumptions.contains(a) {
                assumptions.push(a.clone());
            }
        }
    }
    let parts: Vec<Value> = reports
        .iter()
        .map(|r| {
            json!({
                "part": r.name,
                "rule": r.rule,
                "evaluations": r.evaluations,
                "distinct_nontrivial": r.nontrivial_hashes.len(),
                "classes": r.classes,
                "known_finding_hits": r.known_hits,
                "excluded_by_construction": r.excluded,
                "exhaustive": r.exhaustive,
                "wall_s": r.wall_s,
            })
        })
        .collect();
    let rule = reports
        .iter()
        .map(|r| format!("[{}] {}", r.name, r.rule))
        .collect::<Vec<_>>()
        .join(" || ");
    let exhaustive = !reports.is_empty() && reports.iter().all(|r| r.exhaustive);
    let ev = json!({
        "property_id": prop.id,
        "tier": tier.as_str(),
        "seed": seed,
        "level": prop.level,
        "coverage": {
            "evaluations": evaluations,
            "distinct_nontrivial": distinct,
            "rule": rule,
            "samples": samples,
            "exhaustive": exhaustive,
            "parts": parts,
            "strict_xml_parser_cross_check_with_expat": xcheck,
        },
        "assumptions": assumptions,
        "wall_s": wall_s,
        "violations": violations,
    });
    let path = dir.join(format!("{}.json", prop.id));
    let _ = std::fs::write(path, serde_json::to_string_pretty(&ev).unwrap());
}

/// Replay one saved case. Exit code 1 (with a VIOLATION line) if it still fails.
pub fn replay_property(prop: &Property, file: &Path) -> i32 {
    let root = verif_root();
    let known = KnownFindings::load(&root.join("known_findings.json"));
    let text = match std::fs::read_to_string(file) {
        Ok(t) => t,
        Err(e) => {
            eprintln!("cannot read {}: {e}", file.display());
            return 2;
        }
    };
    let v: Value = match serde_json::from_str(&text) {
        Ok(v) => v,
        Err(e) => {
            eprintln!("cannot parse {}: {e}", file.display());
            return 2;
        }
    };
    let part_name = v["part"].as_str().unwrap_or("");
    let Some(part) = prop.parts.iter().find(|p| p.name() == part_name) else {
        eprintln!("no part '{part_name}' in {}", prop.id);
        return 2;
    };
    start_watchdog();
    {
        let (limit, hang_is_violation) = part.replay_limit();
        let owned = v["case"].clone();
        let w = Watched {
            since: Instant::now(),
            limit: Duration::from_secs(limit),
            hang_is_violation,
            property: prop.id,
            part: part.name(),
            seed: v["seed"].as_u64().unwrap_or(0),
            tier: Tier::Quick,
            case: Box::new(move || owned.clone()),
        };
        if let Some(map) = WATCH.lock().unwrap().as_mut() {
            map.insert(std::thread::current().id(), w);
        }
    }
    let replayed = part.replay(&v["case"]);
    if let Some(map) = WATCH.lock().unwrap().as_mut() {
        map.remove(&std::thread::current().id());
    }
    match replayed {
        Err(e) => {
            eprintln!("{e}");
            2
        }
        Ok(obs) => {
            let mut exit = 0;
            for (sig, msg) in &obs.failures {
                if known.is_known(prop.id, sig) {
                    println!(
                        "KNOWN-FINDING: property={} signature={} {}",
                        prop.id,
                        sig,
                        known.describe(prop.id, sig)
                    );
                } else {
                    eprintln!("[{sig}] {msg}");
                    exit = 1;
                }
            }
            if exit == 1 {
                println!("VIOLATION property={} replay={}", prop.id, file.display());
            } else {
                eprintln!("replay passed ({} classes: {:?})", obs.classes.len(), obs.classes);
            }
            exit
        }
    }
}

/// Run `f` on its own thread and give up waiting after `limit` (the thread is abandoned: a call
/// that loops without ever yielding cannot be interrupted). `None` = it never returned.
pub fn with_watchdog<T: Send + 'static>(
    limit: std::time::Duration,
    f: impl FnOnce() -> T + Send + 'static,
) -> Option<T> {
    let (tx, rx) = std::sync::mpsc::channel();
    let _ = std::thread::Builder::new()
        .name("watched-case".into())
        .spawn(move || {
            let _ = tx.send(f());
        });
    rx.recv_timeout(limit).ok()
}

/// Monotone index mapping (keeps shrinking effective): `i` in 0..=65535 to 0..len
pub fn pick_idx(i: u16, len: usize) -> usize {
    if len == 0 {
        0
    } else {
        ((i as usize) * len) >> 16
    }
}

pub fn boxed<S: Strategy + 'static>(s: S) -> BoxedStrategy<S::Value> {
    s.boxed()
}
