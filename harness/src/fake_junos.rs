//! A fake Junos NETCONF server: strict request parsing (every request is also a C10
//! observation), the ephemeral database as a reference model with open / load / commit / close
//! semantics, the running configuration served to the subtree-filtered get-config, an ordered log
//! of the RPCs received per session, and fault injection at any request index.

use std::sync::{Arc, Mutex};

use serde::{Deserialize, Serialize};

use crate::{
    junos_model::{Config, LoadOutcome},
    mem::{HandlerResult, MemFactory, Wire},
    running::{running_reply_raw, running_x, Stmt},
    sess::{all_caps, hello_xml, MARKER, NS_BASE},
    xmlgen::{render_message, Ns, Style, X},
    xmlstrict::{parse_document, Elem},
};

#[derive(Debug, Clone, PartialEq, Eq, Serialize, Deserialize)]
pub enum FaultKind {
    /// `<rpc-error>` of severity error as the reply
    RpcError,
    /// reply cut in the middle
    Truncated,
    /// the operation's normal (positive) reply complete up to, and without, the end tag of its
    /// root element: `<rpc-reply ...><ok/>]]>]]>`
    EndTagMissing,
    /// a reply with the wrong root element
    WrongRoot,
    /// not XML at all
    NotXml,
    /// a well-formed positive reply carrying a message-id nobody is waiting for
    UnknownMessageId,
    /// connection closed instead of replying
    CloseBeforeReply,
    /// correct reply, then the connection is closed
    CloseAfterReply,
    /// (loads) `<load-configuration-results>` holding an error-severity rpc-error and a
    /// `<load-error-count>`, the shape Junos uses for a failed load; elsewhere like `RpcError`
    LoadResultsError,
    /// (loads) error-severity rpc-error inside the results followed by `<ok/>`
    LoadErrorThenOk,
    /// (loads) error-severity rpc-error inside the results followed by `<ok></ok>`
    LoadErrorThenOkStartEnd,
    /// (loads) a warning, then an error, then a warning, then `<ok/>`
    LoadWarnErrorWarnOk,
    /// a well-formed, correctly numbered reply that acknowledges nothing: for a load
    /// `<load-configuration-results><load-error-count>0</load-error-count></...>` (no `<ok/>`),
    /// for operations answered with `<ok/>` or `<data>` an empty `<rpc-reply>`; for the Junos
    /// operations whose positive reply *is* the empty reply (open/close-configuration) like
    /// `RpcError`
    NoAck,
    /// (loads) an empty `<load-configuration-results>` element
    LoadEmptyResults,
    /// (loads) results holding one warning, `<load-error-count>1`, and no `<ok/>`
    LoadWarningNoOk,
    /// the operation's normal (positive) reply with an error-severity rpc-error appended as the
    /// last child of `<rpc-reply>`: `<data>...</data><rpc-error>`, `<ok/><rpc-error>`,
    /// `<load-configuration-results><ok/></...><rpc-error>`
    PositiveThenError,
    /// (pipelined loads) the error reply to this load overtakes the replies to the earlier loads
    /// and is followed at once by a second, positive reply bearing the same message-id; the
    /// earlier loads are answered afterwards
    ErrorOvertakesThenDuplicateOk,
    /// two rpc-errors, the first of severity error, the second a warning
    ErrorThenWarning,
    /// two rpc-errors, the first a warning, the second of severity error
    WarningThenError,
    /// (loads) a results element generated from the reply grammar that is **not** a positive
    /// acknowledgement (it holds an error-severity rpc-error, or no `<ok/>` at all); see
    /// [`load_shape`]. Elsewhere like `RpcError`
    LoadShape(u16),
}

#[derive(Debug, Clone, Copy, PartialEq, Eq)]
pub enum ShapeItem {
    Warning,
    Error,
    Ok,
    OkStartEnd,
    Count(usize),
}

/// Decode a shape code: up to four items of 3 bits each (0 = nothing, 1 = warning, 2 = error,
/// 3 = `<ok/>`, 4 = `<ok></ok>`, 5..7 = nothing), then 3 bits for a `<load-error-count>` (0 = none,
/// 1 = the number of rpc-errors, 2..=5 = the literal 0..=3, else none) appended after the items
/// (bit 15: placed first instead). A shape that would be a positive acknowledgement (an ok and no
/// error-severity rpc-error) gets an error appended, so every shape is a failed load by
/// construction.
pub fn load_shape(code: u16) -> Vec<ShapeItem> {
    let mut v = Vec::new();
    for i in 0..4 {
        match (code >> (3 * i)) & 7 {
            1 => v.push(ShapeItem::Warning),
            2 => v.push(ShapeItem::Error),
            3 => v.push(ShapeItem::Ok),
            4 => v.push(ShapeItem::OkStartEnd),
            _ => {}
        }
    }
    let has_ok = v.iter().any(|i| matches!(i, ShapeItem::Ok | ShapeItem::OkStartEnd));
    let has_err = v.iter().any(|i| matches!(i, ShapeItem::Error));
    if has_ok && !has_err {
        v.push(ShapeItem::Error);
    }
    let errs = v
        .iter()
        .filter(|i| matches!(i, ShapeItem::Warning | ShapeItem::Error))
        .count();
    let count = match (code >> 12) & 7 {
        1 => Some(errs),
        c @ 2..=5 => Some(c as usize - 2),
        _ => None,
    };
    if let Some(c) = count {
        if code & 0x8000 != 0 {
            v.insert(0, ShapeItem::Count(c));
        } else {
            v.push(ShapeItem::Count(c));
        }
    }
    v
}

pub const FAULT_KINDS: [FaultKind; 19] = [
    FaultKind::RpcError,
    FaultKind::Truncated,
    FaultKind::EndTagMissing,
    FaultKind::WrongRoot,
    FaultKind::NotXml,
    FaultKind::UnknownMessageId,
    FaultKind::CloseBeforeReply,
    FaultKind::CloseAfterReply,
    FaultKind::LoadResultsError,
    FaultKind::LoadErrorThenOk,
    FaultKind::LoadErrorThenOkStartEnd,
    FaultKind::LoadWarnErrorWarnOk,
    FaultKind::NoAck,
    FaultKind::LoadEmptyResults,
    FaultKind::LoadWarningNoOk,
    FaultKind::ErrorThenWarning,
    FaultKind::WarningThenError,
    FaultKind::PositiveThenError,
    FaultKind::ErrorOvertakesThenDuplicateOk,
];

#[derive(Debug, Clone, PartialEq, Eq, Serialize, Deserialize)]
pub struct Fault {
    /// index of the request (0 = first rpc after the hello) at which the fault is injected
    pub at: usize,
    pub kind: FaultKind,
}

#[derive(Debug, Clone, PartialEq, Eq)]
pub struct RpcRecord {
    pub session: usize,
    pub name: String,
    /// was the reply the server sent for it positive?
    pub positive_reply: bool,
    pub faulted: bool,
}

#[derive(Debug, Default)]
pub struct FakeJunos {
    pub running: Vec<Stmt>,
    /// render the running configuration with the raw renderer (attribute order under control)
    pub running_raw: bool,
    /// when set, served verbatim as the reply to the running get-config (message-id patched in)
    pub running_override: Option<Vec<u8>>,
    /// when set, served verbatim as the reply to the ephemeral get-config
    pub ephemeral_override: Option<Vec<u8>>,
    pub style: Option<Style>,
    pub ephemeral: Config,
    pub pending: Option<Config>,
    pub expected_db: String,
    pub log: Vec<RpcRecord>,
    pub sessions: usize,
    /// payload (`<configuration>` text) and outcome of every load of the current/last session
    pub loads: Vec<(String, Elem, Result<LoadOutcome, String>)>,
    pub commits: usize,
    /// the state a `<confirmed/>` commit falls back to unless a plain commit confirms it before
    /// the session ends (the confirm time-out is modelled as "at the end of the session")
    unconfirmed: Option<Config>,
    /// problems noticed while parsing requests (C10 observations, protocol misuse)
    pub protocol_errors: Vec<String>,
    pub faults: Vec<Fault>,
    /// withhold the load replies until this many loads have been received in the session, to
    /// prove that a failing reply arrives after later loads were already sent
    pub withhold_until_loads: Option<usize>,
    withheld: Vec<Vec<u8>>,
    loads_in_session: usize,
    request_index: usize,
    /// warnings emitted (deleting something absent)
    pub warnings: Vec<String>,
}

fn reply_wrap(id: &str, body: &str) -> Vec<u8> {
    format!(
        "<rpc-reply xmlns=\"{NS_BASE}\" xmlns:junos=\"http://xml.juniper.net/junos/23.1R0/junos\" message-id=\"{id}\">\n{body}\n</rpc-reply>\n{MARKER}"
    )
    .into_bytes()
}

fn rpc_error(id: &str, msg: &str) -> Vec<u8> {
    reply_wrap(
        id,
        &format!(
            "<rpc-error>\n<error-type>protocol</error-type>\n<error-tag>operation-failed</error-tag>\n<error-severity>error</error-severity>\n<error-message>{msg}</error-message>\n</rpc-error>"
        ),
    )
}

impl FakeJunos {
    pub fn new(db: &str) -> Self {
        Self {
            expected_db: db.to_string(),
            ..Self::default()
        }
    }

    fn style(&self) -> Style {
        self.style.clone().unwrap_or_else(Style::canonical)
    }

    fn data_reply(&self, id: &str, cfg: X) -> Vec<u8> {
        let root = X::container(Ns::Base, "rpc-reply")
            .attr("message-id", id)
            .kid(X::container(Ns::Base, "data").kid(cfg));
        render_message(&root, &self.style()).into_bytes()
    }

    /// handle one client message of session `session`
    pub fn handle(&mut self, session: usize, raw: &[u8]) -> HandlerResult {
        let mut res = HandlerResult::default();
        let text = String::from_utf8_lossy(raw).to_string();
        let Some(body) = text.strip_suffix(MARKER) else {
            self.protocol_errors
                .push(format!("message without delimiter: {text:?}"));
            return res;
        };
        if body.contains(MARKER) {
            self.protocol_errors
                .push(format!("delimiter inside message: {text:?}"));
        }
        let root = match parse_document(body) {
            Ok(r) => r,
            Err(e) => {
                self.protocol_errors
                    .push(format!("request is not well-formed ({e}): {body:?}"));
                return res;
            }
        };
        if root.name == "hello" {
            return res;
        }
        if root.name != "rpc" {
            self.protocol_errors
                .push(format!("unexpected root <{}>", root.name));
            return res;
        }
        let id = root.attr("message-id").unwrap_or("").to_string();
        let ops: Vec<&Elem> = root.elems().collect();
        if ops.len() != 1 {
            self.protocol_errors
                .push(format!("<rpc> with {} operation elements", ops.len()));
            return res;
        }
        let op = ops[0];
        let index = self.request_index;
        self.request_index += 1;
        let is_load = op.name == "load-configuration";
        // release withheld load replies as soon as something other than a load arrives
        if !is_load && !self.withheld.is_empty() {
            res.replies.append(&mut self.withheld);
        }
        let (reply, positive) = self.execute(op, &id);
        let fault = self.faults.iter().find(|f| f.at == index).cloned();
        let mut record = RpcRecord {
            session,
            name: op.name.clone(),
            positive_reply: positive,
            faulted: fault.is_some(),
        };
        let mut out: Vec<Vec<u8>> = Vec::new();
        let mut overtakes = false;
        match fault.map(|f| f.kind) {
            None => out.push(reply),
            Some(FaultKind::RpcError) => {
                record.positive_reply = false;
                out.push(rpc_error(&id, "injected fault"));
            }
            Some(k @ (FaultKind::ErrorThenWarning | FaultKind::WarningThenError)) => {
                record.positive_reply = false;
                let e = |sev: &str| {
                    format!("<rpc-error>\n<error-type>protocol</error-type>\n<error-tag>operation-failed</error-tag>\n<error-severity>{sev}</error-severity>\n<error-message>injected {sev}</error-message>\n</rpc-error>\n")
                };
                let body = if k == FaultKind::ErrorThenWarning {
                    format!("{}{}", e("error"), e("warning"))
                } else {
                    format!("{}{}", e("warning"), e("error"))
                };
                out.push(reply_wrap(&id, &body));
            }
            Some(FaultKind::ErrorOvertakesThenDuplicateOk) => {
                record.positive_reply = false;
                out.push(rpc_error(&id, "injected fault"));
                out.push(reply);
                overtakes = true;
            }
            Some(FaultKind::PositiveThenError) => {
                record.positive_reply = false;
                let text = String::from_utf8_lossy(&reply).to_string();
                let err = "<rpc-error>\n<error-type>protocol</error-type>\n<error-tag>operation-failed</error-tag>\n<error-severity>error</error-severity>\n<error-message>injected after the positive part</error-message>\n</rpc-error>\n";
                match text.rfind("</rpc-reply>") {
                    Some(i) => out.push(format!("{}{err}{}", &text[..i], &text[i..]).into_bytes()),
                    // a self-closed / unusual spelling: fall back to a plain error
                    None => out.push(rpc_error(&id, "injected fault")),
                }
            }
            Some(FaultKind::Truncated) => {
                record.positive_reply = false;
                let cut = reply.len().saturating_sub(MARKER.len()) / 2;
                let mut r = reply[..cut].to_vec();
                r.extend_from_slice(MARKER.as_bytes());
                out.push(r);
            }
            Some(FaultKind::EndTagMissing) => {
                record.positive_reply = false;
                let text = String::from_utf8_lossy(&reply).to_string();
                let body = text.strip_suffix(MARKER).unwrap_or(&text);
                match body.rfind("</") {
                    Some(i) => out.push(format!("{}{MARKER}", &body[..i]).into_bytes()),
                    None => out.push(rpc_error(&id, "injected fault")),
                }
            }
            Some(FaultKind::WrongRoot) => {
                record.positive_reply = false;
                out.push(
                    format!("<notification xmlns=\"urn:ietf:params:xml:ns:netconf:notification:1.0\"><eventTime>2024-01-01T00:00:00Z</eventTime></notification>{MARKER}")
                        .into_bytes(),
                );
            }
            Some(FaultKind::NotXml) => {
                record.positive_reply = false;
                out.push(format!("error: syntax error\n{MARKER}").into_bytes());
            }
            Some(FaultKind::UnknownMessageId) => {
                record.positive_reply = false;
                let s = String::from_utf8_lossy(&reply)
                    .replace(&format!("message-id=\"{id}\""), "message-id=\"99999\"");
                out.push(s.into_bytes());
            }
            Some(FaultKind::CloseBeforeReply) => {
                record.positive_reply = false;
                res.close = true;
            }
            Some(FaultKind::CloseAfterReply) => {
                out.push(reply);
                res.close = true;
            }
            Some(
                k @ (FaultKind::LoadResultsError
                | FaultKind::LoadErrorThenOk
                | FaultKind::LoadErrorThenOkStartEnd
                | FaultKind::LoadWarnErrorWarnOk
                | FaultKind::NoAck
                | FaultKind::LoadEmptyResults
                | FaultKind::LoadWarningNoOk
                | FaultKind::LoadShape(_)),
            ) => {
                record.positive_reply = false;
                if is_load {
                    let e = |sev: &str| {
                        format!("<rpc-error>\n<error-type>protocol</error-type>\n<error-tag>operation-failed</error-tag>\n<error-severity>{sev}</error-severity>\n<error-message>injected {sev}</error-message>\n</rpc-error>\n")
                    };
                    let inner = match k {
                        FaultKind::LoadResultsError => {
                            format!("{}<load-error-count>1</load-error-count>\n", e("error"))
                        }
                        FaultKind::LoadErrorThenOk => format!("{}<ok/>\n", e("error")),
                        FaultKind::LoadErrorThenOkStartEnd => format!("{}<ok></ok>\n", e("error")),
                        FaultKind::NoAck => "<load-error-count>0</load-error-count>\n".to_string(),
                        FaultKind::LoadEmptyResults => String::new(),
                        FaultKind::LoadWarningNoOk => {
                            format!("{}<load-error-count>1</load-error-count>\n", e("warning"))
                        }
                        FaultKind::LoadShape(code) => load_shape(code)
                            .into_iter()
                            .map(|i| match i {
                                ShapeItem::Warning => e("warning"),
                                ShapeItem::Error => e("error"),
                                ShapeItem::Ok => "<ok/>\n".to_string(),
                                ShapeItem::OkStartEnd => "<ok></ok>\n".to_string(),
                                ShapeItem::Count(n) => {
                                    format!("<load-error-count>{n}</load-error-count>\n")
                                }
                            })
                            .collect(),
                        _ => format!("{}{}{}<ok/>\n", e("warning"), e("error"), e("warning")),
                    };
                    out.push(reply_wrap(
                        &id,
                        &format!("<load-configuration-results>\n{inner}</load-configuration-results>"),
                    ));
                } else if k == FaultKind::NoAck
                    && !matches!(op.name.as_str(), "open-configuration" | "close-configuration")
                {
                    out.push(reply_wrap(&id, ""));
                } else {
                    out.push(rpc_error(&id, "injected fault"));
                }
            }
        }
        self.log.push(record);
        if is_load {
            self.loads_in_session += 1;
        }
        match self.withhold_until_loads {
            Some(n) if is_load && !res.close && self.loads_in_session < n => {
                if overtakes {
                    out.append(&mut self.withheld);
                    self.withheld = out;
                } else {
                    self.withheld.append(&mut out);
                }
            }
            _ => {
                if overtakes {
                    res.replies.append(&mut out);
                    res.replies.append(&mut self.withheld);
                } else {
                    res.replies.append(&mut self.withheld);
                    res.replies.append(&mut out);
                }
            }
        }
        if op.name == "close-session" {
            res.close = true;
        }
        res
    }

    /// perform the operation on the model; returns (reply, positive?)
    fn execute(&mut self, op: &Elem, id: &str) -> (Vec<u8>, bool) {
        match op.name.as_str() {
            "open-configuration" => {
                let name = op.child("ephemeral-instance").map(Elem::text);
                if self.pending.is_some() {
                    return (rpc_error(id, "configuration database already open"), false);
                }
                if name.as_deref() != Some(self.expected_db.as_str()) {
                    self.protocol_errors.push(format!(
                        "open-configuration names {name:?}, expected ephemeral instance {:?}",
                        self.expected_db
                    ));
                    return (rpc_error(id, "unknown ephemeral instance"), false);
                }
                self.pending = Some(self.ephemeral.clone());
                (reply_wrap(id, ""), true)
            }
            "get-config" => {
                let source = op
                    .child("source")
                    .and_then(|s| s.elems().next())
                    .map(|e| e.name.clone())
                    .unwrap_or_default();
                match source.as_str() {
                    "running" => {
                        if let Some(o) = &self.running_override {
                            return (o.clone(), true);
                        }
                        // the router honours the request's subtree filter
                        let filter = crate::running::StmtFilter::from_request(op.child("filter"));
                        if self.running_raw {
                            (
                                crate::running::running_reply_raw_filtered(id, &self.running, &filter)
                                    .into_bytes(),
                                true,
                            )
                        } else {
                            (
                                self.data_reply(
                                    id,
                                    crate::running::running_x_filtered(&self.running, &filter),
                                ),
                                true,
                            )
                        }
                    }
                    "candidate" => {
                        if let Some(o) = &self.ephemeral_override {
                            return (o.clone(), true);
                        }
                        match &self.pending {
                            Some(db) => (self.data_reply(id, db.render()), true),
                            None => {
                                self.protocol_errors.push(
                                    "get-config of <candidate/> without an open ephemeral database".into(),
                                );
                                (rpc_error(id, "no open configuration database"), false)
                            }
                        }
                    }
                    other => (rpc_error(id, &format!("unsupported source {other}")), false),
                }
            }
            "load-configuration" => {
                let payload = op
                    .elems()
                    .next()
                    .map(|_| {
                        // keep the raw text of the payload for evidence
                        String::new()
                    })
                    .unwrap_or_default();
                let _ = payload;
                if op.attr("format") != Some("xml") || op.attr("action") != Some("merge") {
                    self.protocol_errors.push(format!(
                        "load-configuration with attributes {:?}",
                        op.attrs
                    ));
                }
                let Some(db) = self.pending.as_mut() else {
                    self.protocol_errors
                        .push("load-configuration without an open ephemeral database".into());
                    return (rpc_error(id, "no open configuration database"), false);
                };
                let cfgs: Vec<&Elem> = op.elems().collect();
                let outcome = if cfgs.len() == 1 {
                    let mut scratch = db.clone();
                    let r = scratch.apply_merge(cfgs[0]);
                    if r.is_ok() {
                        *db = scratch;
                    }
                    r
                } else {
                    Err(format!("{} payload elements", cfgs.len()))
                };
                let text = format!("{:?}", cfgs.first());
                let elem = cfgs.first().map(|e| (*e).clone()).unwrap_or_else(|| Elem {
                    name: String::new(),
                    attrs: Vec::new(),
                    children: Vec::new(),
                    self_closed: true,
                });
                let reply = match &outcome {
                    Ok(o) => {
                        let mut body = String::from("<load-configuration-results>\n");
                        for w in &o.warnings {
                            self.warnings.push(w.clone());
                            body.push_str(&format!(
                                "<rpc-error>\n<error-type>protocol</error-type>\n<error-tag>operation-failed</error-tag>\n<error-severity>warning</error-severity>\n<error-message>{}</error-message>\n</rpc-error>\n",
                                crate::xmlstrict::escape_text(w)
                            ));
                        }
                        body.push_str("<ok/>\n</load-configuration-results>");
                        (reply_wrap(id, &body), true)
                    }
                    Err(e) => {
                        self.protocol_errors
                            .push(format!("load-configuration payload rejected: {e}"));
                        (
                            reply_wrap(
                                id,
                                &format!(
                                    "<load-configuration-results>\n<rpc-error>\n<error-type>protocol</error-type>\n<error-tag>operation-failed</error-tag>\n<error-severity>error</error-severity>\n<error-message>{}</error-message>\n</rpc-error>\n<load-error-count>1</load-error-count>\n</load-configuration-results>",
                                    crate::xmlstrict::escape_text(e)
                                ),
                            ),
                            false,
                        )
                    }
                };
                self.loads.push((text, elem, outcome));
                reply
            }
            "commit-configuration" => match self.pending.clone() {
                Some(db) => {
                    // the router honours the options of the request: <check/> validates only,
                    // <at-time> schedules (nothing is activated now), <confirmed/> activates
                    // provisionally
                    let has = |n: &str| op.child(n).is_some();
                    if has("check") || has("at-time") {
                        return (reply_wrap(id, "<ok/>"), true);
                    }
                    if has("confirmed") {
                        if self.unconfirmed.is_none() {
                            self.unconfirmed = Some(self.ephemeral.clone());
                        }
                    } else {
                        self.unconfirmed = None;
                    }
                    self.ephemeral = db;
                    self.commits += 1;
                    (reply_wrap(id, "<ok/>"), true)
                }
                None => {
                    self.protocol_errors
                        .push("commit-configuration without an open ephemeral database".into());
                    (rpc_error(id, "no open configuration database"), false)
                }
            },
            "close-configuration" => {
                self.pending = None;
                (reply_wrap(id, ""), true)
            }
            "close-session" => {
                self.pending = None;
                if let Some(before) = self.unconfirmed.take() {
                    self.ephemeral = before;
                }
                (reply_wrap(id, "<ok/>"), true)
            }
            other => {
                self.protocol_errors
                    .push(format!("unexpected operation <{other}>"));
                (rpc_error(id, "unknown operation"), false)
            }
        }
    }

    /// called when a new session connects
    pub fn new_session(&mut self) -> usize {
        self.sessions += 1;
        self.pending = None;
        if let Some(before) = self.unconfirmed.take() {
            self.ephemeral = before;
        }
        self.withheld.clear();
        self.loads_in_session = 0;
        self.sessions
    }
}

/// A transport factory whose every connection talks to the shared fake Junos.
pub fn factory(fake: &Arc<Mutex<FakeJunos>>) -> MemFactory {
    let fake = fake.clone();
    MemFactory::new(move || Ok(connect(&fake).transport()))
}

/// Open one in-memory connection to the fake Junos (server hello already queued).
pub fn connect(fake: &Arc<Mutex<FakeJunos>>) -> Wire {
    let session = fake.lock().unwrap().new_session();
    let f2 = fake.clone();
    let wire = Wire::with_handler(Box::new(move |raw| f2.lock().unwrap().handle(session, raw)));
    wire.push(hello_xml(&all_caps(), &format!("{}", 100 + session)).into_bytes());
    wire
}
