fn main(){}
