//! Stand-in for `/usr/sbin/cli xml-mode netconf need-trailer`: the NETCONF peer of the local
//! Junos transport. Runs the script named by `FAKE_CLI_SCRIPT` over stdin/stdout and writes its
//! time marks to `FAKE_CLI_MARKS`.
#![allow(clippy::all)]

#[path = "../script.rs"]
mod script;

use async_trait::async_trait;
use script::{run_script_persisting, Marks, PeerIo, Script};
use tokio::io::{AsyncReadExt, AsyncWriteExt};

struct Stdio {
    stdin: tokio::io::Stdin,
    stdout: tokio::io::Stdout,
    marks_path: Option<String>,
}

#[async_trait]
impl PeerIo for Stdio {
    async fn write_unit(&mut self, data: &[u8]) -> std::io::Result<()> {
        self.stdout.write_all(data).await?;
        self.stdout.flush().await
    }
    async fn read_some(&mut self) -> std::io::Result<Vec<u8>> {
        let mut buf = vec![0u8; 16 * 1024];
        let n = self.stdin.read(&mut buf).await?;
        buf.truncate(n);
        Ok(buf)
    }
    async fn close(&mut self, abrupt: bool) {
        if abrupt {
            // (marks are persisted incrementally by the interpreter)
            // SAFETY: plain syscalls
            unsafe {
                libc::kill(libc::getpid(), libc::SIGKILL);
            }
        } else {
            let _ = self.stdout.flush().await;
        }
    }
    async fn half_close(&mut self) {
        let _ = self.stdout.flush().await;
        // SAFETY: plain syscall; the process keeps running with its stdout closed
        unsafe {
            libc::close(1);
        }
    }
}

fn main() {
    let script: Script = std::env::var("FAKE_CLI_SCRIPT")
        .ok()
        .and_then(|p| std::fs::read(p).ok())
        .and_then(|b| serde_json::from_slice(&b).ok())
        .unwrap_or_default();
    let marks_path = std::env::var("FAKE_CLI_MARKS").ok();
    let rt = tokio::runtime::Builder::new_current_thread()
        .enable_all()
        .build()
        .expect("runtime");
    let marks = rt.block_on(async {
        let mut io = Stdio {
            stdin: tokio::io::stdin(),
            stdout: tokio::io::stdout(),
            marks_path: marks_path.clone(),
        };
        let closes = script
            .steps
            .iter()
            .any(|s| matches!(s, script::Step::Close { .. }));
        let marks = run_script_persisting(
            &mut io,
            &script,
            marks_path.as_deref().map(std::path::Path::new),
        )
        .await;
        if !closes {
            // no explicit close: stay until the parent closes our stdin
            let mut b = [0u8; 1024];
            while let Ok(n) = io.stdin.read(&mut b).await {
                if n == 0 {
                    break;
                }
            }
        }
        marks
    });
    if let Some(p) = marks_path {
        let _ = std::fs::write(p, serde_json::to_vec(&marks).unwrap_or_default());
    }
    // clean close = exit 0 (stdout closed by process exit)
    std::process::exit(0);
}
