//! C10 — serialised requests are well-formed and carry the caller's values unchanged.
//!
//! Engine F: every operation with generated values for each text parameter; the captured bytes
//! are parsed with the harness's own strict XML parser and every value is recovered from the
//! location the protocol defines for it.

use proptest::prelude::*;
use serde::{Deserialize, Serialize};

use crate::{
    core::{Obs, Prop, PropPart, Property, Tier},
    ops::{
        run_req, AtSpec, CfgOrUrl, Ds, DsOrCfg, DsOrUrl, FilterSpec, LoadSrc, OpenTarget, Outcome,
        ReqSpec,
    },
    sess::{all_caps, establish_caps, MARKER},
    strings::{is_nontrivial_text, nasty_text, uri, xml_fragment},
    xmlstrict::{parse_document, Elem},
};

#[derive(Debug, Clone, Serialize, Deserialize)]
pub struct Case {
    pub spec: ReqSpec,
}

#[derive(Debug)]
enum Expect {
    /// element text at path (from the operation element) must equal the value
    Text(&'static str, Vec<&'static str>, String),
    /// attribute at path
    Attr(&'static str, Vec<&'static str>, &'static str, String),
    /// raw bytes `open + fragment + close` must occur in the message
    Fragment(&'static str, String, String, String),
}

fn expectations(spec: &ReqSpec) -> Vec<Expect> {
    let mut out = Vec::new();
    let filt = |f: &Option<Option<FilterSpec>>, out: &mut Vec<Expect>| match f {
        Some(Some(FilterSpec::XPath(x))) => {
            out.push(Expect::Attr("xpath-select", vec!["filter"], "select", x.clone()));
        }
        Some(Some(FilterSpec::Subtree(s))) => out.push(Expect::Fragment(
            "subtree-filter",
            "<filter type=\"subtree\">".into(),
            s.clone(),
            "</filter>".into(),
        )),
        _ => {}
    };
    match spec {
        ReqSpec::Get { filter } => filt(filter, &mut out),
        ReqSpec::GetConfig { filter, .. } => filt(filter, &mut out),
        ReqSpec::EditConfig { source, .. } => match source {
            Some(CfgOrUrl::Config(c)) => out.push(Expect::Fragment(
                "edit-config-config",
                "<config>".into(),
                c.clone(),
                "</config>".into(),
            )),
            Some(CfgOrUrl::Url(u)) => out.push(Expect::Text("url", vec!["url"], u.clone())),
            None => {}
        },
        ReqSpec::CopyConfig { source, .. } => {
            if let Some(DsOrCfg::Config(c)) = source {
                out.push(Expect::Fragment(
                    "copy-config-config",
                    "<source><config>".into(),
                    c.clone(),
                    "</config></source>".into(),
                ));
            }
        }
        ReqSpec::Validate { source } => {
            if let Some(DsOrCfg::Config(c)) = source {
                out.push(Expect::Fragment(
                    "validate-config",
                    "<source><config>".into(),
                    c.clone(),
                    "</config></source>".into(),
                ));
            }
        }
        ReqSpec::DeleteConfig { target } => {
            if let Some(DsOrUrl::Url(u)) = target {
                out.push(Expect::Text("url", vec!["target", "url"], u.clone()));
            }
        }
        ReqSpec::Commit {
            persist, persist_id, ..
        } => {
            if let Some(Some(t)) = persist {
                out.push(Expect::Text("persist-token", vec!["persist"], t.clone()));
            }
            if let Some(Some(t)) = persist_id {
                out.push(Expect::Text("persist-id-token", vec!["persist-id"], t.clone()));
            }
        }
        ReqSpec::CancelCommit { persist_id } => {
            if let Some(Some(t)) = persist_id {
                out.push(Expect::Text("persist-id-token", vec!["persist-id"], t.clone()));
            }
        }
        ReqSpec::OpenConfiguration { target } => {
            if let Some(OpenTarget::EphemeralNamed(n)) = target {
                out.push(Expect::Text(
                    "ephemeral-instance-name",
                    vec!["ephemeral-instance"],
                    n.clone(),
                ));
            }
        }
        ReqSpec::CommitConfiguration { log, .. } => {
            if let Some(l) = log {
                out.push(Expect::Text("log-message", vec!["log"], l.clone()));
            }
        }
        ReqSpec::LoadConfiguration { src } => match src {
            Some(LoadSrc::Xml(x, _)) => out.push(Expect::Fragment(
                "load-xml-config",
                ">".into(),
                x.clone(),
                "</load-configuration>".into(),
            )),
            Some(LoadSrc::Text(t, a)) => out.push(Expect::Text(
                "load-text-config",
                vec![if *a == 4 {
                    "configuration-set"
                } else {
                    "configuration-text"
                }],
                t.clone(),
            )),
            Some(LoadSrc::Json(t, _)) => out.push(Expect::Text(
                "load-json-config",
                vec!["configuration-json"],
                t.clone(),
            )),
            _ => {}
        },
        _ => {}
    }
    out
}

fn spec_strategy() -> BoxedStrategy<ReqSpec> {
    let txt = || nasty_text(true);
    let attr_txt = || nasty_text(false);
    let filter = || {
        prop_oneof![
            attr_txt().prop_map(FilterSpec::XPath),
            xml_fragment().prop_map(FilterSpec::Subtree),
        ]
    };
    let any_uri = || {
        prop_oneof![
            uri("file"),
            uri("ftp"),
            uri("http"),
            uri("https"),
            uri("sftp")
        ]
    };
    prop_oneof![
        3 => filter().prop_map(|f| ReqSpec::Get { filter: Some(Some(f)) }),
        3 => (filter(), 0usize..3).prop_map(|(f, d)| ReqSpec::GetConfig {
            source: Some(Ds::ALL[d]),
            filter: Some(Some(f)),
        }),
        3 => (prop_oneof![xml_fragment().prop_map(CfgOrUrl::Config), any_uri().prop_map(CfgOrUrl::Url)],
              0usize..3, prop::option::of(0u8..3), prop::option::of(0u8..3), prop::option::of(0u8..3))
            .prop_map(|(s, d, a, b, c)| ReqSpec::EditConfig {
                target: Some(Ds::ALL[d]),
                source: Some(s),
                default_operation: a,
                error_option: b,
                test_option: c,
                order: 0,
            }),
        2 => (xml_fragment(), 0usize..3).prop_map(|(c, d)| ReqSpec::CopyConfig {
            target: Some(Ds::ALL[d]),
            source: Some(DsOrCfg::Config(c)),
        }),
        2 => xml_fragment().prop_map(|c| ReqSpec::Validate { source: Some(DsOrCfg::Config(c)) }),
        2 => any_uri().prop_map(|u| ReqSpec::DeleteConfig { target: Some(DsOrUrl::Url(u)) }),
        3 => (txt(), prop::option::of(0u64..100_000)).prop_map(|(t, to)| ReqSpec::Commit {
            confirmed: Some(true),
            confirm_timeout: to,
            persist: Some(Some(t)),
            persist_id: None,
            order: 0,
        }),
        2 => txt().prop_map(|t| ReqSpec::Commit {
            confirmed: None,
            confirm_timeout: None,
            persist: None,
            persist_id: Some(Some(t)),
            order: 0,
        }),
        2 => txt().prop_map(|t| ReqSpec::CancelCommit { persist_id: Some(Some(t)) }),
        3 => txt().prop_map(|t| ReqSpec::OpenConfiguration {
            target: Some(OpenTarget::EphemeralNamed(t)),
        }),
        3 => (txt(), prop::option::of(any::<bool>()), prop::option::of(prop_oneof![
                Just(AtSpec::Reboot), (0u32..86_400).prop_map(AtSpec::TodayAt), (0i64..4_000_000_000).prop_map(AtSpec::At)]),
              prop::option::of(prop::option::of(0u64..100_000)), prop::option::of(any::<bool>()))
            .prop_map(|(l, check, at, confirm, sync)| ReqSpec::CommitConfiguration {
                check, at, confirm, log: Some(l), sync,
            }),
        4 => (txt(), 0u8..5).prop_map(|(t, a)| ReqSpec::LoadConfiguration { src: Some(LoadSrc::Text(t, a)) }),
        4 => (txt(), 0u8..3).prop_map(|(t, a)| ReqSpec::LoadConfiguration { src: Some(LoadSrc::Json(t, a)) }),
        3 => (xml_fragment(), 0u8..4).prop_map(|(t, a)| ReqSpec::LoadConfiguration { src: Some(LoadSrc::Xml(t, a)) }),
        1 => (0usize..ReqSpec::canonical().len()).prop_map(|i| ReqSpec::canonical()[i].clone()),
    ]
    .boxed()
}

fn locate<'a>(op: &'a Elem, path: &[&str]) -> Option<&'a Elem> {
    op.path(path)
}

/// Check one captured request. Returns failures as (signature, message).
pub fn check_request(spec: &ReqSpec, request: &[u8], obs: &mut Obs) {
    let op = spec.op_name();
    let Ok(s) = std::str::from_utf8(request) else {
        obs.fail(format!("not-utf8:{op}"), "request is not valid UTF-8");
        return;
    };
    let exps = expectations(spec);
    let param = exps
        .first()
        .map(|e| match e {
            Expect::Text(n, ..) | Expect::Attr(n, ..) | Expect::Fragment(n, ..) => *n,
        })
        .unwrap_or("none");
    let occurrences = s.matches(MARKER).count();
    if !s.ends_with(MARKER) {
        obs.fail(
            format!("delimiter-missing:{op}"),
            "message does not end with ]]>]]>",
        );
        return;
    }
    if occurrences != 1 {
        obs.fail(
            format!("delimiter-inside-message:{op}:{param}"),
            format!(
                "the end-of-message delimiter occurs {occurrences} times in the {op} request: {s:?}"
            ),
        );
    }
    let body = &s[..s.len() - MARKER.len()];
    let root = match parse_document(body) {
        Ok(r) => r,
        Err(e) => {
            obs.fail(
                format!("not-well-formed:{op}:{param}"),
                format!("{op} request is not well-formed XML ({e}): {body:?}"),
            );
            return;
        }
    };
    if root.name != "rpc" || root.attr("message-id").is_none() {
        obs.fail(format!("bad-root:{op}"), format!("unexpected root: {body:?}"));
        return;
    }
    let kids: Vec<&Elem> = root.elems().collect();
    if kids.len() != 1 || kids[0].name != op {
        obs.fail(
            format!("bad-operation-element:{op}"),
            format!("expected exactly one <{op}> inside <rpc>: {body:?}"),
        );
        return;
    }
    let op_el = kids[0];
    for e in &exps {
        match e {
            Expect::Text(name, path, value) => match locate(op_el, path) {
                None => obs.fail(
                    format!("value-missing:{op}:{name}"),
                    format!("no element {path:?} in {body:?}"),
                ),
                Some(el) => {
                    let got = el.text();
                    if el.elems().next().is_some() || got != *value {
                        obs.fail(
                            format!("value-changed:{op}:{name}"),
                            format!("{name}: caller passed {value:?}, server recovers {got:?} from {body:?}"),
                        );
                    }
                }
            },
            Expect::Attr(name, path, attr, value) => {
                match locate(op_el, path).and_then(|el| el.attr(attr)) {
                    None => obs.fail(
                        format!("value-missing:{op}:{name}"),
                        format!("no attribute {attr} at {path:?} in {body:?}"),
                    ),
                    Some(got) if got != value => obs.fail(
                        format!("value-changed:{op}:{name}"),
                        format!("{name}: caller passed {value:?}, server recovers {got:?} from {body:?}"),
                    ),
                    Some(_) => {}
                }
            }
            Expect::Fragment(name, open, frag, close) => {
                let needle = format!("{open}{frag}{close}");
                if !body.contains(&needle) {
                    obs.fail(
                        format!("fragment-not-verbatim:{op}:{name}"),
                        format!("fragment {frag:?} does not appear verbatim in {body:?}"),
                    );
                }
            }
        }
    }
}

pub struct C10;

impl Prop for C10 {
    type Case = Case;
    fn name(&self) -> &'static str {
        "library-requests"
    }
    fn rule(&self) -> String {
        "every operation of the library with generated values for its text parameters (tokens, log \
         messages, ephemeral instance names, XPath select, URLs, text/JSON/set configuration) built \
         from XML metacharacters, quotes, the delimiter and its prefixes, CDATA/comment openers, \
         entity look-alikes, BMP and astral characters, empty strings, up to 4 KiB; XML-fragment \
         parameters are generated well-formed trees. Non-trivial = some text value contains a \
         metacharacter, quote or ']]'; distinct by request"
            .into()
    }
    fn cases(&self, tier: Tier) -> u32 {
        tier.pick(40_000, 2_000_000)
    }
    fn strategy(&self, _tier: Tier) -> BoxedStrategy<Case> {
        spec_strategy().prop_map(|spec| Case { spec }).boxed()
    }
    fn check(&self, case: &Case) -> Obs {
        let mut obs = Obs::default();
        let (sess, wire) = establish_caps(&all_caps());
        let spec = &case.spec;
        obs.class(format!("op:{}", spec.op_name()));
        let before = wire.sent_count();
        let (_s, request, out) = run_req(sess, &wire, spec, |_| Vec::new());
        match out {
            Outcome::Refused(e) => {
                obs.class("refused");
                // nothing may have been sent
                if wire.sent_count() != before {
                    obs.fail(
                        format!("refused-but-sent:{}", spec.op_name()),
                        format!("request refused ({e}) but bytes were sent"),
                    );
                }
                return obs;
            }
            Outcome::SendStuck => {
                obs.fail("harness-sanity:send-stuck", "send did not complete");
                return obs;
            }
            _ => {}
        }
        let exps = expectations(spec);
        obs.nontrivial = exps.iter().any(|e| match e {
            Expect::Text(_, _, v) | Expect::Attr(_, _, _, v) => is_nontrivial_text(v),
            Expect::Fragment(_, _, f, _) => f.contains("&") || f.contains("]]"),
        });
        for e in &exps {
            match e {
                Expect::Text(n, ..) | Expect::Attr(n, ..) | Expect::Fragment(n, ..) => {
                    obs.class(format!("param:{n}"));
                }
            }
        }
        check_request(spec, &request, &mut obs);
        obs
    }
    fn assumptions(&self) -> Vec<String> {
        vec![
            "text values are sequences of XML Chars without \\r; attribute-carried values also without \\t and \\n (XML cannot carry other control characters; line-end and attribute-value normalisation belong to the parser)".into(),
            "XML fragments never contain the literal delimiter ]]>]]> (RFC 6242 section 4.3 limit of end-of-message framing)".into(),
            "well-formed, not namespace-valid: the client's missing xmlns on <rpc> is not part of the property".into(),
        ]
    }
}

pub fn property() -> Property {
    Property {
        id: "C10",
        level: "exploration",
        parts: vec![
            // first, so that its documents are inside the cross-check sample
            Box::new(PropPart(OracleSelfCheck)),
            Box::new(PropPart(C10)),
            Box::new(PropPart(crate::props::agent_parts::C10Agent)),
        ],
    }
}

// ------------------------------------------------------------------ oracle self-check

/// The strict XML parser is the oracle of C10 (and judges generated ill-formed inputs in C12).
/// This part generates *damaged* documents (the C14 mutation generator) and only has the strict
/// parser judge them; at the end of the run every distinct judged document is re-parsed by expat
/// (tools/expat_check.py) and a disagreement makes the run inconclusive. It cannot fail on its own.
pub struct OracleSelfCheck;

impl Prop for OracleSelfCheck {
    type Case = crate::props::c14::Case;
    fn name(&self) -> &'static str {
        "oracle-self-check"
    }
    fn rule(&self) -> String {
        "valid hellos / replies in generated styles damaged by 0..3 mutations of the C14 generator; the harness's strict XML parser judges each one that is still UTF-8 and the verdicts are compared with expat at the end of the run (coverage.strict_xml_parser_cross_check_with_expat). Non-trivial = a damaged (>=1 mutation) UTF-8 document; distinct by document".into()
    }
    fn cases(&self, tier: Tier) -> u32 {
        tier.pick(20_000, 300_000)
    }
    fn strategy(&self, tier: Tier) -> BoxedStrategy<Self::Case> {
        crate::props::c14::Mutations.strategy(tier)
    }
    fn check(&self, case: &Self::Case) -> Obs {
        let mut obs = Obs::default();
        if case
            .mutations
            .iter()
            .any(|m| matches!(m, crate::props::c14::Mutation::Nest(d) if *d > 1000))
        {
            // the strict parser is recursive; 11000 levels need more stack than a worker has
            obs.class("deep-nesting(skipped)");
            return obs;
        }
        let mut bytes = crate::props::c14::render_base(&case.base, &case.style);
        for m in case.mutations.iter().take(3) {
            bytes = crate::props::c14::apply(bytes, m);
        }
        let Ok(text) = std::str::from_utf8(&bytes) else {
            obs.class("not-utf8(skipped)");
            return obs;
        };
        let body = text.strip_suffix(crate::sess::MARKER).unwrap_or(text);
        if body.len() > 32 * 1024 {
            obs.class("too-long(skipped)");
            return obs;
        }
        let ok = parse_document(body).is_ok();
        obs.class(if ok { "strict:well-formed" } else { "strict:ill-formed" });
        obs.nontrivial = !case.mutations.is_empty();
        obs
    }
}
