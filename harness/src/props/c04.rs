//! C04 — commit only after every load succeeded; any failed step aborts the run.
//!
//! Engine B with fault enumeration: the agent's real `Updater::run()` against the fake Junos,
//! with every fault kind injected at every position of the request sequence
//! open -> get-config x2 -> load x N -> commit -> close-configuration -> close-session.
//! The oracle is an invariant over the RPC names the fake Junos received and the run's result.

use std::sync::{Arc, Mutex};

use proptest::prelude::*;
use serde::{Deserialize, Serialize};

use crate::{
    core::{Obs, Prop, PropPart, Property, Tier},
    fake_junos::{FakeJunos, Fault, FaultKind, FAULT_KINDS},
    fullrun::RunResult,
    irr::{Db, FakeIrrd, Op, RsMember},
    junos_model::{Config, PRange, Policy, Term},
    props::c01::{V4_POOL, V6_POOL},
    running::Stmt,
};

#[derive(Debug, Clone, Serialize, Deserialize)]
pub struct Case {
    /// managed policies: (ipv4 pool mask, ipv6 pool mask); each yields one load
    pub managed: Vec<(u16, u16)>,
    /// installed policies that are not managed any more: each yields one delete load
    pub stale: u8,
    pub fault: Option<Fault>,
}

pub fn prefixes_of(pool: &[&str], mask: u16) -> Vec<String> {
    pool.iter()
        .enumerate()
        .filter(|(i, _)| mask & (1 << i) != 0)
        .filter_map(|(_, r)| PRange::from_plain(r))
        .map(|r| r.base.to_string())
        .collect()
}

/// running configuration + IRR database for a set of managed policies whose expressions are
/// route-sets RS-P<i> with the chosen (exact) prefixes
pub fn scenario(managed: &[(u16, u16)]) -> (Vec<Stmt>, Db) {
    let mut stmts = Vec::new();
    let mut db = Db::default();
    db.empty_as_c = true;
    for (i, (v4, v6)) in managed.iter().enumerate() {
        let rs = format!("RS-P{i}");
        stmts.push(Stmt::managed(&format!("fltr-p{i}"), &rs));
        let mut members: Vec<RsMember> = Vec::new();
        for p in prefixes_of(V4_POOL, *v4)
            .into_iter()
            .chain(prefixes_of(V6_POOL, *v6))
        {
            let m = RsMember::Prefix(p, Op::None);
            if !members.contains(&m) {
                members.push(m);
            }
        }
        db.route_sets.insert(rs, members);
    }
    (stmts, db)
}

pub fn stale_config(n: u8) -> Config {
    let mut cfg = Config::default();
    for i in 0..n {
        cfg.policies.push(Policy {
            name: format!("stale-{i}"),
            comment: None,
            terms: vec![Term {
                name: "inet".into(),
                family: Some("inet".into()),
                filters: [("10.0.0.0/8".to_string(), "/8-/24".to_string())]
                    .into_iter()
                    .collect(),
                action: Some("accept".into()),
            }],
            default_action: Some("reject".into()),
        });
    }
    cfg
}

pub struct C04(pub crate::fullrun::Runner);

impl C04 {
    fn loads(case: &Case) -> usize {
        case.managed.len() + case.stale as usize
    }
}

impl Prop for C04 {
    type Case = Case;
    fn name(&self) -> &'static str {
        match self.0 {
            crate::fullrun::Runner::Hook => "fault-positions",
            crate::fullrun::Runner::Binary => "fault-positions-binary",
        }
    }
    fn rule(&self) -> String {
        "the agent's real run (real session, readers, evaluator against a fake IRRd, compare, \
         pipelined loads) against a fake Junos that injects one fault: every position of the \
         request sequence open / get-config x2 / load x N / commit / close-configuration / \
         close-session for N = 0..5 x every fault kind {rpc-error, truncated reply, the normal reply without the end tag of its root element, wrong root, not \
         XML, unknown message-id, close before the reply, close after the reply, and at load positions the Junos result shapes: results with error and load-error-count, error followed by <ok/>, error followed by <ok></ok>, warning-error-warning-<ok/>} is enumerated \
         (plus the fault-free runs); policy contents are sampled. Load replies are withheld until \
         the last load has been received, so a failing load reply provably arrives after later \
         loads were sent. Non-trivial = a fault on a load with at least one later load already \
         sent, or on commit / close-configuration / close-session; distinct by (N, position, kind, \
         contents)"
            .into()
    }
    fn cases(&self, tier: Tier) -> u32 {
        match self.0 {
            crate::fullrun::Runner::Hook => tier.pick(600, 40_000),
            crate::fullrun::Runner::Binary => tier.pick(40, 4_000),
        }
    }
    fn exhaustive(&self, _tier: Tier) -> bool {
        // positions x kinds for each N are enumerated completely in fixed_cases
        true
    }
    fn fixed_cases(&self) -> Vec<Case> {
        let mut out = Vec::new();
        if self.0 == crate::fullrun::Runner::Binary {
            // the unmodified binary over TLS: N = 2 loads (one update, one delete), every
            // position x every kind
            let managed = vec![(0b11u16, 0b1u16)];
            out.push(Case { managed: managed.clone(), stale: 1, fault: None });
            for at in 0..8 {
                for kind in FAULT_KINDS {
                    out.push(Case { managed: managed.clone(), stale: 1, fault: Some(Fault { at, kind }) });
                }
            }
            return out;
        }
        let contents: [&[(u16, u16)]; 5] = [
            &[],
            &[(0b11, 0b1)],
            &[(0b101, 0), (0, 0b11)],
            &[(0b1, 0b1), (0b110, 0b10), (0, 0)],
            &[(0b1, 0), (0b10, 0), (0b100, 0b100), (0b1000, 0)],
        ];
        // every load-results shape with at most three items (x no count / matching count / 0),
        // on the first and on the last of three pipelined loads
        let mut seen = std::collections::HashSet::new();
        for items in 0u16..(1 << 9) {
            for count in [0u16, 1, 2] {
                let code = items | (count << 12);
                let shape = format!("{:?}", crate::fake_junos::load_shape(code));
                if !seen.insert(shape) {
                    continue;
                }
                for at in [3usize, 5] {
                    out.push(Case {
                        managed: vec![(0b101, 0), (0, 0b11)],
                        stale: 1,
                        fault: Some(Fault { at, kind: FaultKind::LoadShape(code) }),
                    });
                }
            }
        }
        for managed in contents {
            for stale in [0u8, 1] {
                let n = managed.len() + stale as usize;
                out.push(Case {
                    managed: managed.to_vec(),
                    stale,
                    fault: None,
                });
                for at in 0..(6 + n) {
                    for kind in FAULT_KINDS {
                        out.push(Case {
                            managed: managed.to_vec(),
                            stale,
                            fault: Some(Fault { at, kind }),
                        });
                    }
                }
            }
        }
        out
    }
    fn strategy(&self, _tier: Tier) -> BoxedStrategy<Case> {
        (
            prop::collection::vec((any::<u16>().prop_map(|m| m & 0xfff), any::<u16>().prop_map(|m| m & 0xfff)), 0..5),
            0u8..3,
            any::<u16>(),
            0usize..FAULT_KINDS.len() + 6,
            prop::bool::weighted(0.9),
            any::<u16>(),
        )
            .prop_map(|(managed, stale, at, kind, faulty, shape)| {
                let n = managed.len() + stale as usize;
                // a generated load-results shape is only distinct from RpcError on a load
                let shaped = kind >= FAULT_KINDS.len() && n > 0;
                Case {
                    fault: faulty.then(|| Fault {
                        at: if shaped {
                            3 + crate::core::pick_idx(at, n)
                        } else {
                            crate::core::pick_idx(at, 6 + n)
                        },
                        kind: if shaped {
                            FaultKind::LoadShape(shape)
                        } else {
                            FAULT_KINDS[kind % FAULT_KINDS.len()].clone()
                        },
                    }),
                    managed,
                    stale,
                }
            })
            .boxed()
    }
    fn check(&self, case: &Case) -> Obs {
        let mut obs = Obs::default();
        let n = Self::loads(case);
        let (stmts, db) = scenario(&case.managed);
        let irrd = match FakeIrrd::start(db, 0) {
            Ok(s) => s,
            Err(e) => {
                obs.fail("harness-sanity:fake-irrd", format!("{e}"));
                return obs;
            }
        };
        let fake = Arc::new(Mutex::new(FakeJunos::new("bgpfu")));
        {
            let mut f = fake.lock().unwrap();
            f.running = stmts;
            f.ephemeral = stale_config(case.stale);
            f.faults = case.fault.iter().cloned().collect();
            f.withhold_until_loads = Some(n);
        }
        let before = fake.lock().unwrap().ephemeral.clone();
        let result = crate::fullrun::agent_run(self.0, &fake, ("127.0.0.1", irrd.port), "bgpfu");
        let (log, after, commits) = {
            let f = fake.lock().unwrap();
            (f.log.clone(), f.ephemeral.clone(), f.commits)
        };
        let names: Vec<&str> = log.iter().map(|r| r.name.as_str()).collect();
        obs.class(format!("N={n}"));
        // where did the fault land?
        let pos_name = |at: usize| -> String {
            match at {
                0 => "open-configuration".into(),
                1 => "get-config(running)".into(),
                2 => "get-config(ephemeral)".into(),
                x if x < 3 + n => "load-configuration".into(),
                x if x == 3 + n => "commit-configuration".into(),
                x if x == 4 + n => "close-configuration".into(),
                _ => "close-session".into(),
            }
        };
        match &case.fault {
            None => obs.class("no-fault"),
            Some(f) => {
                obs.class(format!("fault-at:{}", pos_name(f.at)));
                match f.kind {
                    FaultKind::LoadShape(code) => {
                        obs.class("fault-kind:LoadShape(generated)");
                        let shape = crate::fake_junos::load_shape(code);
                        let ok = shape.iter().any(|i| {
                            matches!(i, crate::fake_junos::ShapeItem::Ok | crate::fake_junos::ShapeItem::OkStartEnd)
                        });
                        obs.class(if ok { "load-shape:error-with-ok" } else { "load-shape:no-ok" });
                    }
                    _ => obs.class(format!("fault-kind:{:?}", f.kind)),
                }
                let on_load_with_later = f.at >= 3 && f.at + 1 < 3 + n;
                obs.nontrivial = on_load_with_later || f.at >= 3 + n;
            }
        }
        let ctx = format!("N={n} fault={:?} rpcs received: {names:?} result: {result:?}", case.fault);
        if result == RunResult::Stuck {
            obs.fail(
                format!(
                    "run-never-completes:{}",
                    case.fault.as_ref().map(|f| format!("{:?}@{}", f.kind, pos_name(f.at))).unwrap_or_default()
                ),
                format!("the run neither succeeded nor failed within the watchdog; {ctx}"),
            );
            return obs;
        }
        // (1) commit only after a positively acknowledged open and only if every load reply sent
        //     before it was positive, and never after the injected fault
        if let Some(ci) = log.iter().position(|r| r.name == "commit-configuration") {
            let open_ok = log[..ci]
                .iter()
                .any(|r| r.name == "open-configuration" && r.positive_reply);
            if !open_ok {
                obs.fail("commit-without-open-database", ctx.clone());
            }
            if log[..ci]
                .iter()
                .any(|r| r.name == "load-configuration" && !r.positive_reply)
            {
                obs.fail("commit-after-a-failed-load", ctx.clone());
            }
            if log[..ci].iter().any(|r| r.faulted && !r.positive_reply) {
                obs.fail("commit-after-a-failed-step", ctx.clone());
            }
            if log[..ci].len() < 3 + n {
                obs.fail("commit-before-all-loads-were-sent", ctx.clone());
            }
        }
        // (2) the run reports failure whenever a step failed
        let fault_is_failure = match &case.fault {
            None => false,
            Some(f) => {
                let last = 5 + n;
                !(f.kind == FaultKind::CloseAfterReply && f.at == last)
            }
        };
        if fault_is_failure && result.is_ok() {
            obs.fail(
                format!(
                    "run-reports-success-although-a-step-failed:{}",
                    case.fault.as_ref().map(|f| format!("{:?}@{}", f.kind, pos_name(f.at))).unwrap_or_default()
                ),
                ctx.clone(),
            );
        }
        if case.fault.is_none() && !result.is_ok() {
            obs.fail("fault-free-run-fails", ctx.clone());
        }
        // (3) success only if commit and both closing steps were positively acknowledged
        if result.is_ok() {
            for step in ["commit-configuration", "close-configuration", "close-session"] {
                if !log.iter().any(|r| r.name == step && r.positive_reply) {
                    obs.fail(
                        format!("success-without-positive-{step}"),
                        ctx.clone(),
                    );
                }
            }
        }
        // (4) nothing reaches the live database without an acknowledged commit
        if commits == 0 && before != after {
            obs.fail("database-changed-without-commit", ctx.clone());
        }
        obs
    }
    fn assumptions(&self) -> Vec<String> {
        vec![
            "the fake Junos applies loads to the opened ephemeral instance and makes them live on commit-configuration; replies have the shapes the library expects".into(),
            "a connection close right after the positive reply to close-session is not a failed step".into(),
            "the watchdog (15 s, all peers in-process) only classifies a run that never completes".into(),
        ]
    }
}

pub fn property() -> Property {
    Property {
        id: "C04",
        level: "fault_enumeration",
        parts: vec![
            Box::new(PropPart(C04(crate::fullrun::Runner::Hook))),
            Box::new(PropPart(C04(crate::fullrun::Runner::Binary))),
        ],
    }
}

// ------------------------------------------------------------------ C02: where the agent writes

/// C02's last clause on the full run: the agent writes nothing outside its own ephemeral
/// instance. The real `Updater::run` against the recording fake Junos, with the reply to
/// `<open-configuration>` positive or one of the failing kinds: every `<load-configuration>` and
/// every `<commit-configuration>` the server receives must come after a positively acknowledged
/// `<open-configuration>` naming the configured instance on that session (otherwise they land in
/// the shared candidate / the static database), and before `<close-configuration>`.
pub struct C02Writes;

impl Prop for C02Writes {
    type Case = Case;
    fn name(&self) -> &'static str {
        "writes-stay-in-the-ephemeral-instance"
    }
    fn rule(&self) -> String {
        "the agent's real run (real session, real evaluator, fake IRRd) against the recording fake Junos with 0..4 managed policies and 0..2 stale ones; the reply to <open-configuration> is positive or one of: rpc-error, error then warning, warning then error, truncated, wrong root, not XML, unknown message-id, connection closed. Oracle: every load-configuration and commit-configuration received lies between a positively acknowledged open-configuration that names the configured ephemeral instance and the close-configuration of that session; the fake Junos saw no protocol error. Non-trivial = the open was not positively acknowledged; distinct by case".into()
    }
    fn cases(&self, tier: Tier) -> u32 {
        tier.pick(2_000, 100_000)
    }
    fn strategy(&self, _tier: Tier) -> BoxedStrategy<Case> {
        const KINDS: [FaultKind; 9] = [
            FaultKind::RpcError,
            FaultKind::ErrorThenWarning,
            FaultKind::WarningThenError,
            FaultKind::Truncated,
            FaultKind::WrongRoot,
            FaultKind::NotXml,
            FaultKind::UnknownMessageId,
            FaultKind::CloseBeforeReply,
            FaultKind::NoAck,
        ];
        (
            prop::collection::vec((any::<u16>().prop_map(|m| m & 0xfff), any::<u16>().prop_map(|m| m & 0xfff)), 0..5),
            0u8..3,
            prop::option::weighted(0.7, 0usize..KINDS.len()),
        )
            .prop_map(|(managed, stale, k)| Case {
                managed,
                stale,
                fault: k.map(|k| Fault { at: 0, kind: KINDS[k].clone() }),
            })
            .boxed()
    }
    fn check(&self, case: &Case) -> Obs {
        let mut obs = Obs::default();
        let (stmts, db) = scenario(&case.managed);
        let irrd = match FakeIrrd::start(db, 0) {
            Ok(s) => s,
            Err(e) => {
                obs.fail("harness-sanity:fake-irrd", format!("{e}"));
                return obs;
            }
        };
        let fake = Arc::new(Mutex::new(FakeJunos::new("bgpfu")));
        {
            let mut f = fake.lock().unwrap();
            f.running = stmts;
            f.ephemeral = stale_config(case.stale);
            f.faults = case.fault.iter().cloned().collect();
        }
        let result = crate::fullrun::agent_run(crate::fullrun::Runner::Hook, &fake, ("127.0.0.1", irrd.port), "bgpfu");
        let (log, errors) = {
            let f = fake.lock().unwrap();
            (f.log.clone(), f.protocol_errors.clone())
        };
        obs.class(match &case.fault {
            None => "open:acknowledged".to_string(),
            Some(f) => format!("open:{:?}", f.kind),
        });
        obs.nontrivial = case.fault.is_some();
        let names: Vec<&str> = log.iter().map(|r| r.name.as_str()).collect();
        let ctx = format!("fault={:?} rpcs received: {names:?} result: {result:?}", case.fault);
        if result == RunResult::Stuck {
            obs.fail("run-never-completes", ctx);
            return obs;
        }
        let mut open = false;
        for r in &log {
            match r.name.as_str() {
                "open-configuration" => open = r.positive_reply,
                "close-configuration" => open = false,
                "load-configuration" | "commit-configuration" if !open => {
                    obs.fail(
                        format!("write-outside-the-ephemeral-instance:{}", r.name),
                        format!("{} received while no ephemeral instance was open on the session; {ctx}", r.name),
                    );
                    return obs;
                }
                _ => {}
            }
        }
        if let Some(e) = errors.first() {
            obs.fail("protocol-error-seen-by-the-server", format!("{e}; {ctx}"));
        }
        obs
    }
    fn assumptions(&self) -> Vec<String> {
        vec!["the fake Junos accepts <open-configuration> only for the configured instance name and records a protocol error otherwise".into()]
    }
}

// ------------------------------------------------------------------ C02: the full run never leaves stale ranges

/// C02 on the full run, from states the agent cannot read completely: the ephemeral instance holds
/// the managed policies as an earlier run left them (some with ranges that are no longer in the
/// evaluated set) and, in most cases, something that makes the fetch of the installed state fail
/// (a policy-statement the installed reader rejects, or an rpc-error to that get-config). Whatever
/// the run does then - give up, or go on - every policy it has written must afterwards accept
/// exactly its evaluated set in the (committed) instance: an update computed against a state that
/// was not read must not leave the old ranges accepted.
pub struct C02Run;

#[derive(Debug, Clone, Serialize, Deserialize)]
pub struct RunCase {
    /// (evaluated v4 mask, evaluated v6 mask, installed-before v4 mask, installed-before v6 mask)
    pub managed: Vec<(u16, u16, u16, u16)>,
    /// 0 nothing; 1 a foreign policy-statement with a term without `from`; 2 one whose term
    /// names an address family the agent does not know; 3 rpc-error to the get-config of the
    /// ephemeral instance
    pub obstacle: u8,
}

fn installed_policy(name: &str, v4: u16, v6: u16) -> Policy {
    let term = |fam: &str, pool: &[&str], mask: u16| -> Option<Term> {
        let filters: Vec<(String, String)> = prefixes_of(pool, mask)
            .into_iter()
            .map(|p| {
                let len = p.rsplit('/').next().unwrap_or("0").to_string();
                (p, format!("/{len}-/{len}"))
            })
            .collect();
        (!filters.is_empty()).then(|| Term {
            name: fam.into(),
            family: Some(fam.into()),
            filters: filters.into_iter().collect(),
            action: Some("accept".into()),
        })
    };
    Policy {
        name: name.into(),
        comment: Some("Last updated at 2024-01-01 00:00:00Z from mp-filter expression AS-BEFORE".into()),
        terms: [term("inet", V4_POOL, v4), term("inet6", V6_POOL, v6)].into_iter().flatten().collect(),
        default_action: Some("reject".into()),
    }
}

impl Prop for C02Run {
    type Case = RunCase;
    fn name(&self) -> &'static str {
        "full-run-from-unreadable-state"
    }
    fn rule(&self) -> String {
        "the agent's real run (real session, readers, evaluator against a fake IRRd) against the fake Junos whose ephemeral instance holds 1..4 managed policies as an earlier run left them (generated subsets of the range pools, so ranges and whole families have to go) plus an obstacle to reading that state: none / a foreign policy-statement whose term has no from / one whose term names an unknown address family / an rpc-error to that get-config. Oracle: every policy the run wrote (its committed state differs from before) accepts exactly its evaluated set afterwards. Non-trivial = an obstacle and at least one installed range that is not in the evaluated set; distinct by case".into()
    }
    fn cases(&self, tier: Tier) -> u32 {
        tier.pick(600, 40_000)
    }
    fn strategy(&self, _tier: Tier) -> BoxedStrategy<RunCase> {
        let m = || any::<u16>().prop_map(|m| m & 0xfff);
        (prop::collection::vec((m(), m(), m(), m()), 1..5), prop_oneof![1 => Just(0u8), 3 => 1u8..4])
            .prop_map(|(managed, obstacle)| RunCase { managed, obstacle })
            .boxed()
    }
    fn fixed_cases(&self) -> Vec<RunCase> {
        (0u8..4)
            .map(|obstacle| RunCase { managed: vec![(0b01, 0b01, 0b11, 0b11), (0b10, 0, 0b110, 0b1)], obstacle })
            .collect()
    }
    fn check(&self, case: &RunCase) -> Obs {
        let mut obs = Obs::default();
        let now: Vec<(u16, u16)> = case.managed.iter().map(|m| (m.0, m.1)).collect();
        let (stmts, db) = scenario(&now);
        let irrd = match FakeIrrd::start(db.clone(), 0) {
            Ok(s) => s,
            Err(e) => {
                obs.fail("harness-sanity:fake-irrd", format!("{e}"));
                return obs;
            }
        };
        let mut before = Config::default();
        for (i, m) in case.managed.iter().enumerate() {
            before.policies.push(installed_policy(&format!("fltr-p{i}"), m.2, m.3));
        }
        match case.obstacle {
            1 | 2 => before.policies.push(Policy {
                name: "operator-test".into(),
                comment: None,
                terms: vec![Term {
                    name: "t".into(),
                    family: (case.obstacle == 2).then(|| "iso".to_string()),
                    filters: Default::default(),
                    action: Some("accept".into()),
                }],
                default_action: Some("reject".into()),
            }),
            _ => {}
        }
        let fake = Arc::new(Mutex::new(FakeJunos::new("bgpfu")));
        {
            let mut f = fake.lock().unwrap();
            f.running = stmts;
            f.ephemeral = before.clone();
            if case.obstacle == 3 {
                f.faults = vec![Fault { at: 2, kind: FaultKind::RpcError }];
            }
        }
        let result = crate::fullrun::agent_run(crate::fullrun::Runner::Hook, &fake, ("127.0.0.1", irrd.port), "bgpfu");
        let after = fake.lock().unwrap().ephemeral.clone();
        obs.class(format!("obstacle:{}", ["none", "term-without-from", "term-of-unknown-family", "rpc-error-to-get-config"][case.obstacle as usize % 4]));
        obs.class(format!("run:{}", match &result { RunResult::Ok => "ok", RunResult::Err(_) => "failed", RunResult::Stuck => "stuck" }));
        let stale = case.managed.iter().any(|m| m.2 & !m.0 != 0 || m.3 & !m.1 != 0);
        obs.nontrivial = case.obstacle != 0 && stale;
        if result == RunResult::Stuck {
            obs.fail("run-never-completes", format!("{case:?}"));
            return obs;
        }
        for i in 0..case.managed.len() {
            let name = format!("fltr-p{i}");
            if before.get(&name) == after.get(&name) {
                continue;
            }
            obs.class("policy-written");
            let expr = crate::irr::Expr::RouteSet(format!("RS-P{i}"), Op::None);
            if let Err(e) = crate::props::c15::installed_matches(&after, &name, &db, &expr) {
                obs.fail(
                    "written-policy-accepts-outside-its-evaluated-set",
                    format!("obstacle {}: the run ({result:?}) wrote {name:?} and left it different from its evaluated set: {e}; before: {:?}", case.obstacle, before.get(&name)),
                );
                return obs;
            }
        }
        obs
    }
    fn assumptions(&self) -> Vec<String> {
        vec!["Junos merge semantics as modelled (junos_model); 'written' is judged on the committed instance".into()]
    }
}
