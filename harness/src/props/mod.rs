use crate::core::Property;

pub mod agent_parts;
pub mod bin_parts;
pub mod c01;
pub mod c04;
pub mod c05;
pub mod c06;
pub mod c07;
pub mod c08;
pub mod c09;
pub mod c10;
pub mod c11;
pub mod c12;
pub mod c13;
pub mod c14;
pub mod c15;
pub mod c16;
pub mod c18rt;
pub mod c19;
pub mod c20;
pub mod e2e;

pub fn all() -> Vec<Property> {
    vec![c01::property_c01(), c01::property_c02(), c01::property_c03(), c04::property(), c05::property_c05(), c05::property_c18(), c19::property(), c20::property(), c06::property(), c07::property(), c08::property(), c09::property(), c10::property(), c11::property_c11(), c11::property_c17(), c12::property(), c13::property(), c14::property(), c15::property(), c16::property()]
}
