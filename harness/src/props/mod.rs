use crate::core::Property;

pub mod c08;

pub fn all() -> Vec<Property> {
    vec![c08::property()]
}
