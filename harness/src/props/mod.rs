use crate::core::Property;

pub mod c08;
pub mod c09;
pub mod c10;
pub mod c12;
pub mod c13;

pub fn all() -> Vec<Property> {
    vec![c08::property(), c09::property(), c10::property(), c12::property(), c13::property()]
}
