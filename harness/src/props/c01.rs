//! C01 (convergence / read-back / idempotence), C02 (no fail-open), C03 (unobtainable data never
//! removes a managed policy) — engine A: the agent's real session, readers, `compare`, payload
//! writer and load/commit/close sequence over the in-memory transport against the fake Junos;
//! only the IRR evaluation is replaced by a generated function of the expression.

use std::{
    collections::{BTreeMap, BTreeSet},
    sync::{Arc, Mutex},
};

use proptest::prelude::*;
use serde::{Deserialize, Serialize};

use crate::{
    core::{catch, Obs, Prop, PropPart, Property, Tier},
    fake_junos::{self, FakeJunos},
    junos_model::{accept_entries, evaluate, Config, Entry, PRange},
    mem::drive,
    running::{Body, Comment, Stmt, MALFORMED_POOL, NAME_POOL},
};

pub const V4_POOL: &[&str] = &[
    "10.0.0.0/8,8,8",
    "10.0.0.0/8,8,24",
    "10.0.0.0/8,16,24",
    "10.1.0.0/16,16,16",
    "10.1.0.0/16,17,32",
    "192.0.2.0/24,24,24",
    "192.0.2.0/24,25,32",
    "198.51.100.0/24,24,32",
    "0.0.0.0/0,0,0",
    "0.0.0.0/0,8,24",
    "203.0.113.128/25,25,25",
    "100.64.0.0/10,10,32",
];

pub const V6_POOL: &[&str] = &[
    "2001:db8::/32,32,32",
    "2001:db8::/32,32,48",
    "2001:db8::/32,33,48",
    "2001:db8:1::/48,48,48",
    "2001:db8:1::/48,49,64",
    "2c0f:fa90::/32,33,48",
    "::/0,0,0",
    "::/0,16,48",
    "fc00::/7,7,128",
    "2001:db8:ffff:ff00::/56,64,64",
    "::/0,128,128",
    "2600::/12,12,24",
];

#[derive(Debug, Clone, PartialEq, Eq, Serialize, Deserialize)]
pub enum Marking {
    /// active, annotated with a parseable expression, default reject
    Managed,
    /// annotation `bgpfu-fltr:` followed by text that is not an expression
    MalformedAnnotation(u8),
    /// present in the running configuration without the annotation
    Unmanaged,
    /// annotated but `jcmd:active="false"`
    Inactive,
    /// not in the running configuration at all
    Absent,
    /// annotated and active, but the operator has given it further content next to the default
    /// reject (shape code of `Body::RejectPlus`): not managed any more
    TakenOver(u8),
}

#[derive(Debug, Clone, PartialEq, Eq, Serialize, Deserialize)]
pub struct PolicyIn {
    pub marking: Marking,
    /// evaluation fails (unknown as-set, IRR error ...)
    pub eval_fails: bool,
    /// subsets of the range pools the expression evaluates to
    pub v4: u16,
    pub v6: u16,
}

#[derive(Debug, Clone, Serialize, Deserialize)]
pub struct Run {
    /// policy i has the i-th name of the history's name list
    pub policies: Vec<PolicyIn>,
}

#[derive(Debug, Clone, Serialize, Deserialize)]
pub struct History {
    /// indices into `NAME_POOL`, distinct
    pub names: Vec<u8>,
    pub runs: Vec<Run>,
    /// (policy index, IPv4 pool subset, IPv6 pool subset): policies already installed before the
    /// first run, in the shape the agent itself writes (as a previous, correct agent left them),
    /// under exactly the name the running configuration uses
    #[serde(default)]
    pub preinstalled: Vec<(u8, u16, u16)>,
    /// how the router spells its get-config replies (prefixes, white space, comments, quotes,
    /// XML declaration, `<reject></reject>`); `None` = the style of the repository's fixtures
    #[serde(default)]
    pub junos_style: Option<crate::xmlgen::Style>,
}

/// the ephemeral state before the first run of a history
pub fn seed_config(h: &History, names: &[String]) -> Config {
    let mut cfg = Config::default();
    for (i, v4, v6) in &h.preinstalled {
        let Some(name) = names.get(*i as usize) else { continue };
        if cfg.policies.iter().any(|p| p.name == *name) {
            continue;
        }
        let mut terms = Vec::new();
        for (family, set) in [
            ("inet", entries(&pool_set(V4_POOL, *v4))),
            ("inet6", entries(&pool_set(V6_POOL, *v6))),
        ] {
            if !set.is_empty() {
                terms.push(crate::junos_model::Term {
                    name: family.to_string(),
                    family: Some(family.to_string()),
                    filters: set,
                    action: Some("accept".into()),
                });
            }
        }
        cfg.policies.push(crate::junos_model::Policy {
            name: name.clone(),
            comment: Some("Last updated at 2024-01-01 00:00:00Z from mp-filter expression AS-SEED".into()),
            terms,
            default_action: Some("reject".into()),
        });
    }
    cfg
}

fn pool_set(pool: &[&str], mask: u16) -> Vec<String> {
    pool.iter()
        .enumerate()
        .filter(|(i, _)| mask & (1 << i) != 0)
        .map(|(_, r)| (*r).to_string())
        .collect()
}

fn entries(plain: &[String]) -> BTreeSet<Entry> {
    plain
        .iter()
        .filter_map(|p| PRange::from_plain(p))
        .map(|r| r.to_entry())
        .collect()
}

/// the annotation of policy i: every third one contains characters XML has to escape in an
/// attribute value (an AS-path regular expression, which is valid mp-filter syntax)
fn expr_for(i: usize) -> String {
    if i % 3 == 1 {
        format!("AS{} AND <^AS{}>", 65000 + i, 65000 + i)
    } else {
        format!("AS{}", 65000 + i)
    }
}

fn same_expression(a: &str, b: &str) -> bool {
    use rpsl::expr::MpFilterExpr;
    match (a.parse::<MpFilterExpr>(), b.parse::<MpFilterExpr>()) {
        (Ok(x), Ok(y)) => x == y,
        _ => a == b,
    }
}

#[derive(Debug, Clone, Copy, PartialEq, Eq)]
pub enum Which {
    C01,
    C02,
    C03,
    C10,
}

pub fn check_payloads(h: &History, obs: &mut Obs) {
    check_history(h, Which::C10, obs);
}

fn policy_state(cfg: &Config, name: &str) -> Option<(BTreeSet<Entry>, BTreeSet<Entry>)> {
    cfg.get(name)
        .map(|p| (accept_entries(p, "inet"), accept_entries(p, "inet6")))
}

/// Run the history against the agent and evaluate the oracle of `which`.
pub fn check_history(h: &History, which: Which, obs: &mut Obs) {
    let fake = Arc::new(Mutex::new(FakeJunos::new("bgpfu")));
    let names: Vec<String> = h
        .names
        .iter()
        .map(|i| NAME_POOL[*i as usize % NAME_POOL.len()].to_string())
        .collect();
    {
        let seed = seed_config(h, &names);
        if !seed.policies.is_empty() {
            obs.class("starts-from-a-preinstalled-state");
            fake.lock().unwrap().ephemeral = seed;
        }
        if let Some(style) = &h.junos_style {
            obs.class("router-replies-in-a-generated-style");
            fake.lock().unwrap().style = Some(style.clone());
        }
    }
    for (r, run) in h.runs.iter().enumerate() {
        // the running configuration of this run
        let mut stmts = Vec::new();
        for (i, p) in run.policies.iter().enumerate() {
            let Some(name) = names.get(i) else { continue };
            let stmt = match &p.marking {
                Marking::Managed => Stmt::managed(name, &expr_for(i)),
                Marking::MalformedAnnotation(k) => Stmt {
                    comment: Comment::Malformed(
                        MALFORMED_POOL[*k as usize % MALFORMED_POOL.len()].to_string(),
                    ),
                    ..Stmt::managed(name, "x")
                },
                Marking::Unmanaged => Stmt::unmanaged(name),
                Marking::Inactive => Stmt {
                    active: Some(false),
                    ..Stmt::managed(name, &expr_for(i))
                },
                Marking::Absent => continue,
                Marking::TakenOver(k) => Stmt {
                    body: crate::running::Body::RejectPlus { inside_then: k & 1 == 0, before: k & 2 != 0, shape: k >> 2 },
                    ..Stmt::managed(name, &expr_for(i))
                },
            };
            stmts.push(stmt);
        }
        // evaluation function: by policy name (unique per policy; the expression text the agent
        // hands over is its own rendering of the parsed expression)
        let mut by_expr: BTreeMap<String, Option<(Vec<String>, Vec<String>)>> = BTreeMap::new();
        for (i, p) in run.policies.iter().enumerate() {
            let Some(n) = names.get(i) else { continue };
            by_expr.insert(
                n.clone(),
                if p.eval_fails {
                    None
                } else {
                    Some((pool_set(V4_POOL, p.v4), pool_set(V6_POOL, p.v6)))
                },
            );
        }
        let asked: Arc<Mutex<Vec<(String, String)>>> = Arc::new(Mutex::new(Vec::new()));
        let asked2 = asked.clone();
        let eval = move |name: &str, expr: &str| {
            asked2
                .lock()
                .unwrap()
                .push((name.to_string(), expr.to_string()));
            by_expr.get(name).cloned().flatten()
        };
        let before = {
            let mut f = fake.lock().unwrap();
            f.running = stmts.clone();
            f.loads.clear();
            f.log.clear();
            f.protocol_errors.clear();
            f.ephemeral.clone()
        };
        let result = catch(|| {
            drive(bgpfu_junos_agent::verif::plan(
                fake_junos::factory(&fake),
                "bgpfu",
                &eval,
            ))
        });
        let (after, loads, proto) = {
            let f = fake.lock().unwrap();
            (f.ephemeral.clone(), f.loads.clone(), f.protocol_errors.clone())
        };
        let run_ok = match &result {
            Ok(Some(Ok(()))) => true,
            Ok(Some(Err(e))) => {
                if which == Which::C01 {
                    // every state here was produced by the agent itself: a failing run means it
                    // cannot read back (or otherwise process) its own output
                    let chain = format!("{e:#}");
                    let sig = if chain.contains("missing 'then' element") {
                        "run-fails-on-own-state:bare-term-without-then".to_string()
                    } else {
                        format!(
                            "run-fails-on-own-state:{}",
                            chain.split(':').last().unwrap_or("").trim().chars().take(60).collect::<String>()
                        )
                    };
                    obs.fail(
                        sig,
                        format!(
                            "run {r} failed although no fault was injected and the installed state was produced by the agent itself: {chain}; installed before: {before:?}"
                        ),
                    );
                }
                false
            }
            Ok(None) => {
                obs.fail("run-never-completes", format!("run {r} is stuck"));
                false
            }
            Err((loc, msg)) => {
                obs.fail(format!("panic:{loc}"), format!("run {r} panicked at {loc}: {msg}"));
                false
            }
        };
        for e in &proto {
            if which == Which::C02 {
                obs.fail(
                    "agent-wrote-outside-its-scope",
                    format!("run {r}: {e}"),
                );
            }
        }
        obs.inner_evals += 1;
        // classification of what this run did, per policy
        let mut nontrivial = false;
        for (i, p) in run.policies.iter().enumerate() {
            let Some(name) = names.get(i) else { continue };
            let was = policy_state(&before, name);
            let want4 = entries(&pool_set(V4_POOL, p.v4));
            let want6 = entries(&pool_set(V6_POOL, p.v6));
            let managed = p.marking == Marking::Managed;
            let class = match (&was, managed, p.eval_fails) {
                (None, true, false) => {
                    if want4.is_empty() && want6.is_empty() {
                        "create-empty-policy"
                    } else if want4.is_empty() || want6.is_empty() {
                        "create-with-empty-family"
                    } else {
                        "create"
                    }
                }
                (Some((o4, o6)), true, false) => {
                    if *o4 == want4 && *o6 == want6 {
                        "unchanged"
                    } else if want4.is_empty() && want6.is_empty() {
                        "policy-emptied"
                    } else if (!o4.is_empty() && want4.is_empty())
                        || (!o6.is_empty() && want6.is_empty())
                    {
                        "family-emptied"
                    } else if (o4.is_empty() && !want4.is_empty())
                        || (o6.is_empty() && !want6.is_empty())
                    {
                        "family-created"
                    } else {
                        let add = want4.difference(o4).count() + want6.difference(o6).count();
                        let del = o4.difference(&want4).count() + o6.difference(&want6).count();
                        match (add > 0, del > 0) {
                            (true, true) => "add+delete",
                            (true, false) => "add-only",
                            (false, true) => "delete-only",
                            _ => "unchanged",
                        }
                    }
                }
                (Some(_), true, true) => "skipped-failed(installed)",
                (None, true, true) => "skipped-failed(not-installed)",
                (Some(_), false, _) => match p.marking {
                    Marking::MalformedAnnotation(_) => "installed,annotation-malformed",
                    Marking::TakenOver(_) => "delete-taken-over(other-content)",
                    _ => "delete-unmanaged",
                },
                (None, false, _) => "not-managed,not-installed",
            };
            obs.class(class);
            match which {
                Which::C01 => {
                    if managed && !p.eval_fails && class != "unchanged" {
                        nontrivial = true;
                    }
                }
                Which::C02 => {
                    if matches!(class, "family-emptied" | "family-created" | "add+delete" | "policy-emptied" | "create-with-empty-family") {
                        nontrivial = true;
                    }
                }
                Which::C10 => {}
                Which::C03 => {
                    if matches!(class, "skipped-failed(installed)" | "installed,annotation-malformed")
                        && was.as_ref().is_some_and(|(a, b)| !a.is_empty() || !b.is_empty())
                    {
                        nontrivial = true;
                    }
                }
            }
        }
        obs.nontrivial |= nontrivial;

        match which {
            Which::C01 => {
                if run_ok {
                    c01_oracle(r, run, &names, &after, &fake, obs);
                    // (4) idempotence: a further run with unchanged inputs
                    let again = catch(|| {
                        drive(bgpfu_junos_agent::verif::plan(
                            fake_junos::factory(&fake),
                            "bgpfu",
                            &eval,
                        ))
                    });
                    let after2 = fake.lock().unwrap().ephemeral.clone();
                    match again {
                        Ok(Some(Ok(()))) => {
                            if semantic(&after) != semantic(&after2) {
                                obs.fail(
                                    "second-run-with-unchanged-inputs-changes-the-configuration",
                                    format!("run {r}: repeated with unchanged inputs, the configuration changed from {:?} to {:?}", semantic(&after), semantic(&after2)),
                                );
                            }
                        }
                        Ok(Some(Err(e))) => obs.fail(
                            "second-run-with-unchanged-inputs-fails",
                            format!("run {r}: repeated with unchanged inputs, the run fails: {e:#}"),
                        ),
                        Ok(None) => obs.fail("run-never-completes", format!("run {r} (repeat) is stuck")),
                        Err((loc, msg)) => obs.fail(format!("panic:{loc}"), format!("run {r} (repeat) panicked: {msg}")),
                    }
                }
            }
            Which::C02 => c02_oracle(r, run, &names, &before, &loads, obs),
            Which::C03 => c03_oracle(r, run, &names, &stmts, &before, &after, &loads, obs),
            Which::C10 => {
                for e in &proto {
                    if e.contains("not well-formed") || e.contains("delimiter") {
                        obs.fail("agent-request-not-well-formed", format!("run {r}: {e}"));
                    }
                }
                for (text, payload, _) in &loads {
                    let Some(ps) = payload.path(&["policy-options", "policy-statement"]) else {
                        obs.fail("agent-payload-shape", format!("run {r}: {text}"));
                        continue;
                    };
                    let name = ps.child("name").map(crate::xmlstrict::Elem::text).unwrap_or_default();
                    let idx = names.iter().position(|n| *n == name);
                    let known_name = idx.is_some() && (stmts.iter().any(|s| s.name == name) || before.get(&name).is_some());
                    if name.contains(['&', '<', '>', '"', '\'']) || name.contains("]]") {
                        obs.nontrivial = true;
                    }
                    if !known_name {
                        obs.fail(
                            "policy-name-changed-in-payload",
                            format!("run {r}: payload names policy {name:?}, which is neither in the running configuration {:?} nor installed {:?}", stmts.iter().map(|s| &s.name).collect::<Vec<_>>(), before.policies.iter().map(|p| &p.name).collect::<Vec<_>>()),
                        );
                        continue;
                    }
                    if ps.attr("delete").is_none() {
                        let want = expr_for(idx.unwrap());
                        match ps.attr("junos:comment") {
                            Some(c)
                                if c.split_once("from mp-filter expression ")
                                    .is_some_and(|(_, e)| same_expression(e, &want)) => {}
                            other => obs.fail(
                                "comment-does-not-carry-the-expression",
                                format!("run {r}: junos:comment of {name:?} is {other:?}, expected it to end with the expression {want}"),
                            ),
                        }
                    }
                }
            }
        }
        // keep going after an oracle failure (it may be a listed known finding; the state the
        // agent produced is still the basis of the following runs) but not after a run that
        // panicked or hung
        if obs
            .failures
            .iter()
            .any(|(s, _)| s.starts_with("panic") || s.contains("never-completes") || s.contains("stuck"))
        {
            return;
        }
    }
}

fn semantic(cfg: &Config) -> BTreeMap<String, (BTreeSet<Entry>, BTreeSet<Entry>, Option<String>, Vec<(String, Option<String>, usize, Option<String>)>)> {
    cfg.policies
        .iter()
        .map(|p| {
            (
                p.name.clone(),
                (
                    accept_entries(p, "inet"),
                    accept_entries(p, "inet6"),
                    p.default_action.clone(),
                    p.terms
                        .iter()
                        .map(|t| (t.name.clone(), t.family.clone(), t.filters.len(), t.action.clone()))
                        .collect(),
                ),
            )
        })
        .collect()
}

fn c01_oracle(
    r: usize,
    run: &Run,
    names: &[String],
    after: &Config,
    fake: &Arc<Mutex<FakeJunos>>,
    obs: &mut Obs,
) {
    // (1) every evaluated managed policy is installed with exactly its evaluated sets
    let mut still_managed: BTreeSet<&str> = BTreeSet::new();
    for (i, p) in run.policies.iter().enumerate() {
        let Some(name) = names.get(i) else { continue };
        if p.marking == Marking::Managed {
            still_managed.insert(name.as_str());
        }
        if p.marking != Marking::Managed || p.eval_fails {
            continue;
        }
        let want4 = entries(&pool_set(V4_POOL, p.v4));
        let want6 = entries(&pool_set(V6_POOL, p.v6));
        match after.get(name) {
            None => obs.fail(
                if name.contains(['&', '<', '>', '"', '\'']) {
                    "evaluated-policy-not-installed:name-with-xml-metacharacter"
                } else {
                    "evaluated-policy-not-installed"
                },
                format!(
                    "run {r} succeeded but no policy named {name:?} is installed; installed: {:?}",
                    after.policies.iter().map(|p| &p.name).collect::<Vec<_>>()
                ),
            ),
            Some(pol) => {
                let got4 = accept_entries(pol, "inet");
                let got6 = accept_entries(pol, "inet6");
                if got4 != want4 || got6 != want6 {
                    obs.fail(
                        "installed-set-differs-from-evaluated-set",
                        format!(
                            "run {r}: policy {name:?} accepts inet {got4:?} / inet6 {got6:?}, evaluated inet {want4:?} / inet6 {want6:?}"
                        ),
                    );
                }
                if pol.default_action.as_deref() != Some("reject") {
                    obs.fail(
                        "installed-policy-without-default-reject",
                        format!("run {r}: policy {name:?} has default action {:?}", pol.default_action),
                    );
                }
            }
        }
    }
    // (2) nothing installed that is not (any longer) marked as managed
    for pol in &after.policies {
        if !still_managed.contains(pol.name.as_str()) {
            // a policy whose annotation is malformed is C03's subject, not C01's
            let malformed = run.policies.iter().enumerate().any(|(i, p)| {
                names.get(i) == Some(&pol.name)
                    && matches!(p.marking, Marking::MalformedAnnotation(_))
            });
            if malformed {
                continue;
            }
            obs.fail(
                if pol.name.contains("&amp;") || pol.name.contains("&lt;") || pol.name.contains("&gt;") || pol.name.contains("&quot;") || pol.name.contains("&apos;") {
                    "unmanaged-policy-installed:name-written-with-xml-escapes"
                } else {
                    "unmanaged-policy-installed"
                },
                format!(
                    "run {r} succeeded but policy {:?} is installed although no managed statement of that name exists (managed: {still_managed:?})",
                    pol.name
                ),
            );
        }
    }
    // (3) read-back with the agent's own reader
    let readback = catch(|| {
        drive(bgpfu_junos_agent::verif::fetch_installed(
            fake_junos::factory(fake),
            "bgpfu",
        ))
    });
    match readback {
        Ok(Some(Ok(list))) => {
            let got: BTreeMap<String, (BTreeSet<Entry>, BTreeSet<Entry>)> = list
                .into_iter()
                .map(|(n, a, b)| (n, (entries(&a), entries(&b))))
                .collect();
            let want: BTreeMap<String, (BTreeSet<Entry>, BTreeSet<Entry>)> = after
                .policies
                .iter()
                .map(|p| {
                    (
                        p.name.clone(),
                        (accept_entries(p, "inet"), accept_entries(p, "inet6")),
                    )
                })
                .collect();
            if got != want {
                // names are compared as the model holds them; a reader that returns escaped
                // names shows up here
                obs.fail(
                    if got.keys().any(|k| k.contains("&amp;") || k.contains("&lt;") || k.contains("&gt;")) {
                        "read-back-differs:names-returned-with-xml-escapes"
                    } else {
                        "read-back-differs"
                    },
                    format!("run {r}: the agent reads its own installed state back as {got:?}, the database holds {want:?}"),
                );
            }
        }
        Ok(Some(Err(e))) => {
            let chain = format!("{e:#}");
            obs.fail(
                if chain.contains("missing 'then' element") {
                    "own-state-unreadable:bare-term-without-then".to_string()
                } else {
                    format!(
                        "own-state-unreadable:{}",
                        chain.split(':').last().unwrap_or("").trim().chars().take(60).collect::<String>()
                    )
                },
                format!("run {r}: the agent cannot read back the state it installed: {chain}; state {after:?}"),
            );
        }
        Ok(None) => obs.fail("read-back-stuck", format!("run {r}: read-back never completes")),
        Err((loc, msg)) => obs.fail(format!("panic:{loc}"), format!("read-back panicked: {msg}")),
    }
}

#[allow(clippy::too_many_arguments)]
fn c02_oracle(
    r: usize,
    run: &Run,
    names: &[String],
    before: &Config,
    loads: &[(String, crate::xmlstrict::Elem, Result<crate::junos_model::LoadOutcome, String>)],
    obs: &mut Obs,
) {
    // evaluated sets by name
    let mut evaluated: BTreeMap<&str, (Vec<PRange>, Vec<PRange>)> = BTreeMap::new();
    for (i, p) in run.policies.iter().enumerate() {
        let Some(name) = names.get(i) else { continue };
        if p.marking == Marking::Managed && !p.eval_fails {
            let f = |pool: &[&str], m: u16| -> Vec<PRange> {
                pool_set(pool, m)
                    .iter()
                    .filter_map(|s| PRange::from_plain(s))
                    .collect()
            };
            evaluated.insert(name.as_str(), (f(V4_POOL, p.v4), f(V6_POOL, p.v6)));
        }
    }
    // every single update applied alone, every prefix, and the reverse order
    let mut scenarios: Vec<(String, Vec<usize>)> = Vec::new();
    for i in 0..loads.len() {
        scenarios.push((format!("update {i} alone"), vec![i]));
        scenarios.push((format!("prefix of length {}", i + 1), (0..=i).collect()));
    }
    scenarios.push(("reverse order".into(), (0..loads.len()).rev().collect()));
    for (what, idxs) in scenarios {
        let mut cfg = before.clone();
        let mut touched: BTreeSet<String> = BTreeSet::new();
        for i in &idxs {
            match cfg.apply_merge(&loads[*i].1) {
                Ok(o) => touched.extend(o.touched),
                Err(e) => {
                    obs.fail(
                        "agent-wrote-outside-its-scope",
                        format!("run {r}: payload {} rejected by the model: {e}", loads[*i].0),
                    );
                    return;
                }
            }
        }
        obs.inner_evals += 1;
        for name in &touched {
            let Some(pol) = cfg.get(name) else { continue };
            let unescaped_name = name.replace("&amp;", "&").replace("&lt;", "<").replace("&gt;", ">").replace("&quot;", "\"").replace("&apos;", "'");
            let ev = evaluated
                .get(name.as_str())
                .or_else(|| evaluated.get(unescaped_name.as_str()));
            let (ev4, ev6): (Vec<PRange>, Vec<PRange>) = ev.cloned().unwrap_or_default();
            for t in &pol.terms {
                if t.action.as_deref() == Some("accept") {
                    let fam_ok = matches!(
                        (t.name.as_str(), t.family.as_deref()),
                        ("inet", Some("inet")) | ("inet6", Some("inet6"))
                    );
                    if !fam_ok {
                        obs.fail(
                            "accepting-term-not-restricted-to-one-family",
                            format!("run {r}, {what}: policy {name:?} term {:?} accepts with family {:?}", t.name, t.family),
                        );
                    }
                    if t.filters.is_empty() {
                        obs.fail(
                            "accepting-term-without-route-filter",
                            format!("run {r}, {what}: policy {name:?} term {:?} accepts every route of its family", t.name),
                        );
                    }
                    let evs = if t.family.as_deref() == Some("inet6") { &ev6 } else { &ev4 };
                    for e in &t.filters {
                        let ok = PRange::from_entry(e).is_some_and(|x| evs.contains(&x));
                        if !ok {
                            obs.fail(
                                "accepted-range-outside-evaluated-set",
                                format!("run {r}, {what}: policy {name:?} term {:?} accepts {e:?} which is not in the evaluated set {evs:?}", t.name),
                            );
                        }
                    }
                }
            }
            if pol.default_action.as_deref() != Some("reject") {
                obs.fail(
                    "policy-does-not-end-in-reject",
                    format!("run {r}, {what}: policy {name:?} has default action {:?}", pol.default_action),
                );
            }
            // route level: whatever the policy accepts must be in the evaluated set
            let mut reps = Vec::new();
            for x in ev4.iter().chain(ev6.iter()) {
                reps.extend(x.representatives());
            }
            for t in &pol.terms {
                for e in &t.filters {
                    if let Some(x) = PRange::from_entry(e) {
                        reps.extend(x.representatives());
                    }
                }
            }
            reps.push(crate::junos_model::Pfx::parse("8.8.8.0/24").unwrap());
            reps.push(crate::junos_model::Pfx::parse("2001:4860::/32").unwrap());
            for p in reps {
                if evaluate(pol, &p).as_deref() == Some("accept") {
                    let inside = ev4.iter().chain(ev6.iter()).any(|x| x.contains(&p));
                    if !inside {
                        obs.fail(
                            "route-accepted-outside-evaluated-set",
                            format!("run {r}, {what}: policy {name:?} accepts route {} which is outside the evaluated set; policy {pol:?}", p.to_string()),
                        );
                        return;
                    }
                }
            }
        }
    }
}

#[allow(clippy::too_many_arguments)]
fn c03_oracle(
    r: usize,
    run: &Run,
    names: &[String],
    stmts: &[Stmt],
    before: &Config,
    after: &Config,
    loads: &[(String, crate::xmlstrict::Elem, Result<crate::junos_model::LoadOutcome, String>)],
    obs: &mut Obs,
) {
    let touched: BTreeSet<String> = loads
        .iter()
        .filter_map(|(_, _, o)| o.as_ref().ok())
        .flat_map(|o| o.touched.iter().cloned())
        .collect();
    let deleted: BTreeSet<String> = loads
        .iter()
        .filter_map(|(_, _, o)| o.as_ref().ok())
        .flat_map(|o| o.deleted.iter().cloned())
        .collect();
    for (i, p) in run.policies.iter().enumerate() {
        let Some(name) = names.get(i) else { continue };
        let marked = stmts.iter().any(|s| s.name == *name && s.marked());
        let unobtainable = match &p.marking {
            Marking::Managed => p.eval_fails,
            Marking::MalformedAnnotation(_) => true,
            _ => false,
        };
        if marked && unobtainable {
            let why = if matches!(p.marking, Marking::MalformedAnnotation(_)) {
                "annotation-cannot-be-parsed"
            } else {
                "evaluation-failed"
            };
            if touched.contains(name) {
                obs.fail(
                    format!("managed-policy-touched-although-data-unobtainable:{why}"),
                    format!("run {r}: policy {name:?} is still marked as managed, its prefix data could not be obtained ({why}), yet the agent sent an update/delete for it; before: {:?}", before.get(name)),
                );
            }
            if before.get(name) != after.get(name) {
                obs.fail(
                    format!("managed-policy-changed-although-data-unobtainable:{why}"),
                    format!("run {r}: policy {name:?} ({why}) changed from {:?} to {:?}", before.get(name), after.get(name)),
                );
            }
        }
    }
    for d in &deleted {
        let marked = stmts.iter().any(|s| s.name == *d && s.marked());
        if marked {
            let why = run
                .policies
                .iter()
                .enumerate()
                .find(|(i, _)| names.get(*i) == Some(d))
                .map(|(_, p)| match &p.marking {
                    Marking::MalformedAnnotation(_) => "annotation-cannot-be-parsed",
                    Marking::Managed if p.eval_fails => "evaluation-failed",
                    _ => "evaluated",
                })
                .unwrap_or("unknown");
            obs.fail(
                format!("delete-of-a-policy-still-marked-as-managed:{why}"),
                format!("run {r}: delete sent for {d:?} which is still marked as managed ({why})"),
            );
        }
        if before.get(d).is_none() {
            obs.fail(
                "delete-of-a-policy-that-is-not-installed",
                format!("run {r}: delete sent for {d:?} which is not installed"),
            );
        }
    }
}

fn policy_in() -> impl Strategy<Value = PolicyIn> {
    (
        prop_oneof![
            8 => Just(Marking::Managed),
            1 => (0u8..8).prop_map(Marking::MalformedAnnotation),
            1 => Just(Marking::Unmanaged),
            1 => Just(Marking::Inactive),
            2 => Just(Marking::Absent),
            1 => (0u8..20).prop_map(Marking::TakenOver),
        ],
        prop::bool::weighted(0.15),
        prop_oneof![2 => Just(0u16), 1 => Just(1u16), 6 => any::<u16>().prop_map(|m| m & 0xfff), 2 => any::<u16>().prop_map(|m| m & 0x7)],
        prop_oneof![3 => Just(0u16), 1 => Just(1u16), 6 => any::<u16>().prop_map(|m| m & 0xfff), 2 => any::<u16>().prop_map(|m| m & 0x7)],
    )
        .prop_map(|(marking, eval_fails, v4, v6)| PolicyIn {
            marking,
            eval_fails,
            v4,
            v6,
        })
}

pub fn history_strategy(max_runs: usize) -> BoxedStrategy<History> {
    (1usize..5)
        .prop_flat_map(move |n| {
            (
                proptest::sample::subsequence((0..NAME_POOL.len() as u8).collect::<Vec<u8>>(), n)
                    .prop_shuffle(),
                prop::collection::vec(
                    prop::collection::vec(policy_in(), n).prop_map(|policies| Run { policies }),
                    1..=max_runs,
                ),
                prop_oneof![
                    2 => Just(Vec::new()),
                    1 => prop::collection::vec((0..n as u8, any::<u16>().prop_map(|m| m & 0xfff), any::<u16>().prop_map(|m| m & 0xfff)), 1..=n),
                ],
                prop::option::weighted(0.3, crate::xmlgen::style_strategy()),
            )
        })
        .prop_map(|(names, runs, preinstalled, style)| History {
            names,
            runs,
            preinstalled,
            // the self-closed spelling of empty containers is a known C13 finding of the library
            // (<data/>), and white space around a name is part of the name
            junos_style: style.map(|s| crate::xmlgen::Style {
                collapse_containers: false,
                token_ws: crate::xmlgen::Ws::None,
                scope: None,
                ..s
            }),
        })
        .boxed()
}

macro_rules! history_prop {
    ($ty:ident, $which:expr, $name:literal, $rule:literal) => {
        pub struct $ty;
        impl Prop for $ty {
            type Case = History;
            fn name(&self) -> &'static str {
                $name
            }
            fn rule(&self) -> String {
                format!(
                    "histories of 1..6 consecutive agent runs from the empty ephemeral instance (or, in a third of the cases, from policies a previous agent left installed under the running configuration's names) over 1..4 \
                     policy names (pool with XML metacharacters, quotes, spaces, non-ASCII, near-duplicates); \
                     before each run every policy is managed / annotated with a malformed expression / \
                     unmanaged / inactive / absent, its evaluation fails or yields a subset of a pool of 12 \
                     IPv4 and 12 IPv6 ranges (same address with different length ranges, nested and \
                     disjoint prefixes, empty families, empty policies). Every state is produced by the \
                     agent's own payloads applied to the reference Junos model. {}",
                    $rule
                )
            }
            fn cases(&self, tier: Tier) -> u32 {
                tier.pick(6_000, 600_000)
            }
            fn strategy(&self, tier: Tier) -> BoxedStrategy<History> {
                history_strategy(tier.pick(6, 8))
            }
            fn check(&self, h: &History) -> Obs {
                let mut obs = Obs::default();
                check_history(h, $which, &mut obs);
                obs
            }
            fn assumptions(&self) -> Vec<String> {
                vec![
                    "Junos semantics are modelled (load-configuration merge: containers merge, leaves replace, list entries keyed by name resp. (address, range), delete of something absent is a warning); an empty term is stored as written".into(),
                    "get-config replies have the shape of the repository's fixtures; an empty ephemeral instance is rendered as <configuration ...></configuration>".into(),
                    "acceptance is compared at entry level; at route level the union of a term's ranges is an upper bound of Junos' longest-match lookup".into(),
                    "the junos:comment the agent writes contains the current time and is ignored".into(),
                ]
            }
        }
    };
}

history_prop!(
    C01Plan,
    Which::C01,
    "plan-histories",
    "Oracle after each successful run: (1) every evaluated managed policy is installed with exactly its evaluated entries per family and a default reject, (2) nothing is installed that is not marked as managed, (3) the agent's own reader reads the database back to the same entries, (4) a further run with unchanged inputs succeeds and leaves the database semantically unchanged; a failing run is itself a violation (no faults are injected). Non-trivial = a run that changes at least one managed policy; distinct by history"
);
history_prop!(
    C02Plan,
    Which::C02,
    "plan-histories",
    "Oracle: every single update applied alone to the fetched state, every prefix of the emitted update sequence and the reverse order yield, for each policy touched, accepting terms restricted to one family with at least one route-filter all inside the evaluated set, a default reject, and no accepted representative route (range boundaries, siblings, unrelated prefixes) outside the evaluated set; payloads only contain configuration/policy-options/policy-statement paths. Non-trivial = a run in which a family is emptied or created or entries are both added and deleted; distinct by history"
);
history_prop!(
    C03Plan,
    Which::C03,
    "plan-histories",
    "Oracle: a policy that is still marked as managed (active, bgpfu-fltr annotation whether or not it parses, default-reject body) and whose evaluation fails or whose annotation is malformed is named by no payload and its installed state is unchanged; every delete names an installed policy that is not marked. Non-trivial = such a policy was installed with at least one range; distinct by history"
);

pub fn property_c01() -> Property {
    Property {
        id: "C01",
        level: "exploration",
        parts: vec![
            Box::new(PropPart(C01Plan)),
            Box::new(PropPart(crate::props::e2e::C01Full(crate::fullrun::Runner::Hook))),
            Box::new(PropPart(crate::props::e2e::C01Full(crate::fullrun::Runner::Binary))),
        ],
    }
}
pub fn property_c02() -> Property {
    Property {
        id: "C02",
        level: "exploration",
        parts: vec![
            Box::new(PropPart(C02Plan)),
            Box::new(PropPart(crate::props::c04::C02Writes)),
            Box::new(PropPart(crate::props::c04::C02Run)),
        ],
    }
}
pub fn property_c03() -> Property {
    Property {
        id: "C03",
        level: "exploration",
        parts: vec![
            Box::new(PropPart(C03Plan)),
            Box::new(PropPart(crate::props::e2e::C03Full)),
        ],
    }
}

#[allow(dead_code)]
fn _b(_: Body) {}
