//! C14 — arbitrary bytes from the server produce an error, never a panic or a hang.
//!
//! Part `mutations` (proptest): a valid hello / reply generated from the grammars, damaged by a
//! generated sequence of mutations (truncate, splice, byte flips, element duplication, absurd
//! numbers, broken UTF-8, deep nesting, random insertions) or replaced by raw random bytes. The
//! same entry function `feed` is what the libFuzzer targets under /verif/fuzz call.
//! Oracle: the affected call returns (value or error) — a panic, arithmetic overflow or a future
//! that never resolves is a violation — and the valid reply to another outstanding request,
//! arriving after the garbage, is still delivered to its caller with its own payload.

use proptest::prelude::*;
use serde::{Deserialize, Serialize};

use crate::{
    core::{catch, pick_idx, Obs, Prop, PropPart, Property, Tier},
    mem::{drive, Wire},
    ops::{Ds, ReqSpec},
    props::{c08, c12},
    replygen::{reply_x, Item},
    sess::{all_caps, establish_caps, establish_with, message_id_lenient, Establish, MARKER, NS_BASE},
    xmlgen::{render_message, style_strategy, Style},
};
use netconf::message::rpc::operation::{Builder as _, GetConfig, Opaque};

#[derive(Debug, Clone, Serialize, Deserialize)]
pub enum Mutation {
    Truncate(u16),
    DeleteRange(u16, u16),
    FlipByte(u16, u8),
    InsertBytes(u16, Vec<u8>),
    /// duplicate the text between the a-th and b-th '<'
    DuplicateElement(u16, u16),
    /// replace the n-th run of digits by one of 0, 2^64, 10^100, -1, 4294967296
    AbsurdNumber(u16, u8),
    /// insert an invalid UTF-8 byte
    BreakUtf8(u16),
    /// wrap the body in `depth` nested elements
    Nest(u16),
    /// append a second copy of the message (before the delimiter)
    SpliceSelf,
    /// replace the namespace URI
    WrongNamespace,
    DropMarker,
    DoubleMarker,
    /// structure-preserving edit of the n-th text node (character data between `>` and `<`):
    /// the message stays well-formed, a leaf value is damaged
    TextEdit(u16, Edit),
    /// the same for the n-th attribute value
    AttrEdit(u16, Edit),
    /// re-address the message: every `message-id` value becomes the *other* outstanding request's
    /// id (a duplicate / misdirected reply)
    OtherMessageId,
}

#[derive(Debug, Clone, Serialize, Deserialize)]
pub enum Edit {
    /// keep only the first k characters
    Truncate(u16),
    /// drop the first k characters
    DropFront(u16),
    DeleteChar(u16),
    InsertChar(u16, char),
    Empty,
    Replace(String),
    Duplicate,
    /// cut right before (false) or after (true) the k-th separator character (`? = : , / & ^ - .`)
    TruncateAtSep(u16, bool),
    /// delete the k-th separator character
    DeleteSep(u16),
}

fn edit_text(text: &str, e: &Edit) -> String {
    let chars: Vec<char> = text.chars().collect();
    let at = |i: u16| pick_idx(i, chars.len() + 1).min(chars.len());
    match e {
        Edit::Truncate(k) => chars[..at(*k)].iter().collect(),
        Edit::DropFront(k) => chars[at(*k)..].iter().collect(),
        Edit::DeleteChar(i) => {
            if chars.is_empty() {
                String::new()
            } else {
                let p = pick_idx(*i, chars.len());
                chars[..p].iter().chain(chars[p + 1..].iter()).collect()
            }
        }
        Edit::InsertChar(i, c) => {
            let p = at(*i);
            let c = if matches!(c, '<' | '&' | '"' | '\'' | '>') { '_' } else { *c };
            chars[..p]
                .iter()
                .copied()
                .chain(std::iter::once(c))
                .chain(chars[p..].iter().copied())
                .collect()
        }
        Edit::Empty => String::new(),
        Edit::TruncateAtSep(k, _) | Edit::DeleteSep(k) => {
            let seps: Vec<usize> = chars
                .iter()
                .enumerate()
                .filter(|(_, c)| {
                    matches!(c, '?' | '=' | ':' | ',' | '/' | '&' | '^' | '-' | '.' | ';' | ' ')
                })
                .map(|(i, _)| i)
                .collect();
            if seps.is_empty() {
                return text.to_string();
            }
            let p = seps[pick_idx(*k, seps.len())];
            match e {
                Edit::TruncateAtSep(_, true) => chars[..=p].iter().collect::<String>(),
                Edit::TruncateAtSep(_, false) => chars[..p].iter().collect::<String>(),
                _ => chars[..p]
                    .iter()
                    .chain(chars[p + 1..].iter())
                    .collect::<String>(),
            }
        }
        Edit::Replace(r) => r.clone(),
        Edit::Duplicate => format!("{text}{text}"),
    }
}

/// (start, end) byte ranges of the text nodes with non-blank content
fn text_nodes(s: &str) -> Vec<(usize, usize)> {
    let b = s.as_bytes();
    let mut v = Vec::new();
    let mut i = 0;
    while i < b.len() {
        if b[i] == b'>' {
            let start = i + 1;
            let mut j = start;
            while j < b.len() && b[j] != b'<' {
                j += 1;
            }
            if j < b.len() && s[start..j].chars().any(|c| !c.is_whitespace()) && !s[start..j].contains("]]>") {
                v.push((start, j));
            }
            i = j;
        } else {
            i += 1;
        }
    }
    v
}

/// (start, end) byte ranges of attribute values (inside the quotes)
fn attr_values(s: &str) -> Vec<(usize, usize)> {
    let b = s.as_bytes();
    let mut v = Vec::new();
    let mut i = 0;
    let mut in_tag = false;
    while i < b.len() {
        match b[i] {
            b'<' => in_tag = true,
            b'>' => in_tag = false,
            q @ (b'"' | b'\'') if in_tag && i > 0 && b[i - 1] == b'=' => {
                let start = i + 1;
                let mut j = start;
                while j < b.len() && b[j] != q {
                    j += 1;
                }
                if j < b.len() {
                    v.push((start, j));
                }
                i = j;
            }
            _ => {}
        }
        i += 1;
    }
    v
}

pub fn apply(mut data: Vec<u8>, m: &Mutation) -> Vec<u8> {
    let pos = |i: u16, len: usize| pick_idx(i, len + 1).min(len);
    match m {
        Mutation::Truncate(i) => {
            let p = pos(*i, data.len());
            data.truncate(p);
        }
        Mutation::DeleteRange(a, b) => {
            let (mut x, mut y) = (pos(*a, data.len()), pos(*b, data.len()));
            if x > y {
                std::mem::swap(&mut x, &mut y);
            }
            data.drain(x..y);
        }
        Mutation::FlipByte(i, v) => {
            if !data.is_empty() {
                let p = pick_idx(*i, data.len());
                data[p] ^= v | 1;
            }
        }
        Mutation::InsertBytes(i, bytes) => {
            let p = pos(*i, data.len());
            data.splice(p..p, bytes.iter().copied());
        }
        Mutation::DuplicateElement(a, b) => {
            let lts: Vec<usize> = data
                .iter()
                .enumerate()
                .filter(|(_, c)| **c == b'<')
                .map(|(i, _)| i)
                .collect();
            if lts.len() >= 2 {
                let (mut x, mut y) = (pick_idx(*a, lts.len()), pick_idx(*b, lts.len()));
                if x > y {
                    std::mem::swap(&mut x, &mut y);
                }
                if x == y {
                    y = (x + 1).min(lts.len() - 1);
                }
                let chunk: Vec<u8> = data[lts[x]..lts[y]].to_vec();
                data.splice(lts[y]..lts[y], chunk);
            }
        }
        Mutation::AbsurdNumber(n, which) => {
            let mut runs: Vec<(usize, usize)> = Vec::new();
            let mut i = 0;
            while i < data.len() {
                if data[i].is_ascii_digit() {
                    let s = i;
                    while i < data.len() && data[i].is_ascii_digit() {
                        i += 1;
                    }
                    runs.push((s, i));
                } else {
                    i += 1;
                }
            }
            if !runs.is_empty() {
                let (s, e) = runs[pick_idx(*n, runs.len())];
                let rep: Vec<u8> = match which % 6 {
                    0 => b"0".to_vec(),
                    1 => b"18446744073709551616".to_vec(),
                    2 => format!("1{}", "0".repeat(100)).into_bytes(),
                    3 => b"-1".to_vec(),
                    4 => b"4294967296".to_vec(),
                    _ => b"18446744073709551615".to_vec(),
                };
                data.splice(s..e, rep);
            }
        }
        Mutation::BreakUtf8(i) => {
            let p = pos(*i, data.len());
            data.insert(p, 0xFF);
        }
        Mutation::Nest(depth) => {
            let d = (*depth as usize % 12_000) + 1;
            let body_end = data
                .windows(MARKER.len())
                .rposition(|w| w == MARKER.as_bytes())
                .unwrap_or(data.len());
            let mut out = Vec::with_capacity(data.len() + d * 7);
            for _ in 0..d {
                out.extend_from_slice(b"<a>");
            }
            out.extend_from_slice(&data[..body_end]);
            for _ in 0..d {
                out.extend_from_slice(b"</a>");
            }
            out.extend_from_slice(&data[body_end..]);
            data = out;
        }
        Mutation::SpliceSelf => {
            let body_end = data
                .windows(MARKER.len())
                .rposition(|w| w == MARKER.as_bytes())
                .unwrap_or(data.len());
            let body = data[..body_end].to_vec();
            data.splice(body_end..body_end, body);
        }
        Mutation::WrongNamespace => {
            let s = String::from_utf8_lossy(&data).replace(NS_BASE, "urn:example:wrong");
            data = s.into_bytes();
        }
        Mutation::DropMarker => {
            if data.ends_with(MARKER.as_bytes()) {
                let n = data.len() - MARKER.len();
                data.truncate(n);
            }
        }
        Mutation::DoubleMarker => data.extend_from_slice(MARKER.as_bytes()),
        Mutation::OtherMessageId => {
            // in the worlds of this check the request that receives the bytes has id 2, the
            // other outstanding request id 1
            if let Ok(s) = std::str::from_utf8(&data) {
                data = s
                    .replace("message-id=\"2\"", "message-id=\"1\"")
                    .replace("message-id='2'", "message-id='1'")
                    .into_bytes();
            }
        }
        Mutation::TextEdit(n, e) | Mutation::AttrEdit(n, e) => {
            if let Ok(s) = std::str::from_utf8(&data) {
                let spans = if matches!(m, Mutation::TextEdit(..)) {
                    text_nodes(s)
                } else {
                    attr_values(s)
                };
                if !spans.is_empty() {
                    let (a, b) = spans[pick_idx(*n, spans.len())];
                    let new = edit_text(&s[a..b], e);
                    let out = format!("{}{}{}", &s[..a], new, &s[b..]);
                    data = out.into_bytes();
                }
            }
        }
    }
    data
}

pub fn mutation() -> impl Strategy<Value = Mutation> {
    prop_oneof![
        3 => any::<u16>().prop_map(Mutation::Truncate),
        2 => (any::<u16>(), any::<u16>()).prop_map(|(a, b)| Mutation::DeleteRange(a, b)),
        3 => (any::<u16>(), any::<u8>()).prop_map(|(a, b)| Mutation::FlipByte(a, b)),
        2 => (any::<u16>(), prop::collection::vec(any::<u8>(), 1..12)).prop_map(|(a, b)| Mutation::InsertBytes(a, b)),
        2 => (any::<u16>(), prop_oneof![
                Just(b"<![CDATA[".to_vec()), Just(b"<!--".to_vec()), Just(b"<?".to_vec()), Just(b"&#".to_vec()),
                Just(b"]]>".to_vec()), Just(b"<!DOCTYPE a [<!ENTITY e \"x\">]>".to_vec()), Just(b"\0".to_vec()),
                Just(b" message-id=\"2\"".to_vec()), Just(b"<ok/>".to_vec()), Just(b"<rpc-error>".to_vec()),
            ]).prop_map(|(a, b)| Mutation::InsertBytes(a, b)),
        3 => (any::<u16>(), any::<u16>()).prop_map(|(a, b)| Mutation::DuplicateElement(a, b)),
        3 => (any::<u16>(), 0u8..6).prop_map(|(a, b)| Mutation::AbsurdNumber(a, b)),
        2 => any::<u16>().prop_map(Mutation::BreakUtf8),
        1 => prop_oneof![1u16..40, Just(11_000u16)].prop_map(Mutation::Nest),
        1 => Just(Mutation::SpliceSelf),
        1 => Just(Mutation::WrongNamespace),
        1 => Just(Mutation::DropMarker),
        1 => Just(Mutation::DoubleMarker),
        8 => (any::<u16>(), edit()).prop_map(|(n, e)| Mutation::TextEdit(n, e)),
        3 => (any::<u16>(), edit()).prop_map(|(n, e)| Mutation::AttrEdit(n, e)),
        2 => Just(Mutation::OtherMessageId),
    ]
}

fn edit() -> impl Strategy<Value = Edit> {
    prop_oneof![
        4 => any::<u16>().prop_map(Edit::Truncate),
        2 => any::<u16>().prop_map(Edit::DropFront),
        3 => any::<u16>().prop_map(Edit::DeleteChar),
        3 => (any::<u16>(), prop_oneof![
            Just(' '), Just('?'), Just('='), Just(','), Just(':'), Just('/'), Just('-'), Just('+'), Just('0'),
            Just('9'), Just('\u{e9}'), Just('\u{1F600}'), Just('%'), Just('#'), Just('^'), Just('\n')])
            .prop_map(|(i, c)| Edit::InsertChar(i, c)),
        1 => Just(Edit::Empty),
        2 => prop_oneof![
            Just("0"), Just("-1"), Just("4294967296"), Just("18446744073709551616"), Just("1e9"), Just("+5"),
            Just(" "), Just("urn:"), Just("?"), Just("a:b?c=d&amp;e"), Just("http://"), Just("/"), Just("::/0"),
            Just("10.0.0.0/33"), Just("/-/"), Just("/24-/8"), Just("inet"), Just("::/129"), Just("1.2.3/8"),
        ].prop_map(|s| Edit::Replace(s.to_string())),
        // long text of multi-byte characters at every alignment: code that cuts, pads or indexes
        // server text by bytes meets a character boundary problem at any cut point up to 700
        2 => (0usize..4, 0usize..3).prop_map(|(offset, kind)| {
            let c = ['\u{e9}', '\u{2018}', '\u{1F600}'][kind];
            let mut t = "a".repeat(offset);
            while t.len() < 700 {
                t.push(c);
            }
            Edit::Replace(t)
        }),
        1 => Just(Edit::Duplicate),
        6 => (any::<u16>(), any::<bool>()).prop_map(|(k, a)| Edit::TruncateAtSep(k, a)),
        2 => any::<u16>().prop_map(Edit::DeleteSep),
    ]
}

#[derive(Debug, Clone, Serialize, Deserialize)]
pub enum Base {
    Hello(c12::Case),
    Reply { op: u8, items: Vec<Item> },
    Raw(Vec<u8>),
}

#[derive(Debug, Clone, Serialize, Deserialize)]
pub struct Case {
    pub base: Base,
    pub style: Style,
    pub mutations: Vec<Mutation>,
    /// (replies) the other request's valid reply arrives *before* the damaged bytes: it is read
    /// by the first caller's reader and parked; the damaged bytes (which may even carry the other
    /// request's message-id) must not disturb it
    #[serde(default)]
    pub b_first: bool,
    /// (replies) after the damaged bytes a well-formed reply bearing the first request's id
    /// arrives as well (the damaged frame was an extra one), then the other request's reply
    #[serde(default)]
    pub late_reply: bool,
    /// (replies) the damaged bytes (addressed to the first request) are taken off the transport
    /// by the *other* request's reader, which is polled first; that other request's own valid
    /// reply follows
    #[serde(default)]
    pub other_reads: bool,
}

#[derive(Debug, PartialEq, Eq)]
pub enum Fed {
    Returned { parsed_beyond_root: bool },
    Panicked(String, String),
    Stuck(&'static str),
    OtherCallerBroken(String),
}

const TAG: &str = "<tag-for-request-two xmlns=\"urn:verif\">B-payload</tag-for-request-two>";

/// Entry function shared with the fuzz targets: feed `bytes` as the server hello.
/// (No panic handling here: under libFuzzer a panic must abort the process.)
pub fn feed_hello_raw(bytes: &[u8]) -> Fed {
    let wire = Wire::new();
    match establish_with(&wire, bytes) {
        Establish::Stuck => Fed::Stuck("session establishment"),
        Establish::Ok(_) => Fed::Returned {
            parsed_beyond_root: true,
        },
        Establish::Err(e) => Fed::Returned {
            parsed_beyond_root: !format!("{e:?}").contains("DecodeMessage"),
        },
    }
}

pub fn feed_hello(bytes: &[u8]) -> Fed {
    match catch(|| feed_hello_raw(bytes)) {
        Ok(f) => f,
        Err((loc, msg)) => Fed::Panicked(loc, msg),
    }
}

/// Entry function shared with the fuzz targets: request A = `spec`, request B = a tagged
/// get-config; `bytes` arrive first, then B's valid reply.
pub fn feed_reply(spec: &ReqSpec, bytes: &[u8]) -> Fed {
    feed_reply_ordered(spec, bytes, false)
}

pub fn feed_reply_ordered(spec: &ReqSpec, bytes: &[u8], b_first: bool) -> Fed {
    match catch(|| feed_reply_raw_ordered(spec, bytes, b_first)) {
        Ok(f) => f,
        Err((loc, msg)) => Fed::Panicked(loc, msg),
    }
}

pub fn feed_reply_raw(spec: &ReqSpec, bytes: &[u8]) -> Fed {
    feed_reply_raw_ordered(spec, bytes, false)
}

/// `b_first`: B's valid reply is delivered first (the first caller's reader takes it off the
/// transport and parks it for B), then the bytes. Whatever the bytes are - including a second
/// message bearing B's id - B must afterwards receive the reply that was parked for it.
fn feed_reply_b_first(spec: &ReqSpec, bytes: &[u8]) -> Fed {
    let (mut sess, wire) = establish_caps(&all_caps());
    let fut_b = match drive(sess.rpc::<GetConfig<Opaque>, _>(|b| {
        b.source(Ds::Running.to_lib())?.finish()
    })) {
        Some(Ok(f)) => f,
        other => {
            return Fed::OtherCallerBroken(format!(
                "harness: cannot send request B: {:?}",
                other.map(|r| r.map(|_| ()))
            ))
        }
    };
    let id_b = wire
        .sent()
        .last()
        .and_then(|m| message_id_lenient(m))
        .unwrap_or_default();
    let reply_b = format!(
        "<rpc-reply xmlns=\"{NS_BASE}\" message-id=\"{id_b}\"><data>{TAG}</data></rpc-reply>{MARKER}"
    )
    .into_bytes();
    let bytes_a = bytes.to_vec();
    let (_s, _req, out) = crate::ops::run_req(sess, &wire, spec, |_id| vec![reply_b, bytes_a]);
    if matches!(out, crate::ops::Outcome::SendStuck | crate::ops::Outcome::Refused(_)) {
        return Fed::OtherCallerBroken(format!("harness: request A not sent: {out:?}"));
    }
    if matches!(out, crate::ops::Outcome::Stuck) {
        // every message the reader meets resolves it: its own reply, a collision with the parked
        // reply, an unknown id, or a parse error
        return Fed::Stuck("reply future of the request that received the bytes (the other request's reply had arrived before)");
    }
    let parsed = !matches!(&out, crate::ops::Outcome::OtherErr(e) if e.contains("DecodeMessage"));
    match drive(fut_b) {
        None => Fed::OtherCallerBroken("request B never resolved although its reply had arrived before the damaged bytes".into()),
        Some(Ok(v)) if &*v == TAG => Fed::Returned {
            parsed_beyond_root: parsed,
        },
        Some(Ok(v)) => Fed::OtherCallerBroken(format!("request B got foreign data {v:?} instead of the reply that had arrived for it")),
        Some(Err(e)) => Fed::OtherCallerBroken(format!(
            "request B failed with {e:?} although its valid reply had arrived before the damaged bytes"
        )),
    }
}

/// `tag` = the text between `<` and `>` of a start tag: is it, for any XML reader, the start of an
/// `<rpc-reply>` in the NETCONF base namespace bearing `message-id="<id>"`? Conservative: anything
/// irregular (unparsable attribute syntax, duplicate attributes, references, a self-closing tag)
/// gives `false`.
fn root_tag_is_reply_to(tag: &str, id: &str) -> bool {
    const BASE: &str = "urn:ietf:params:xml:ns:netconf:base:1.0";
    if tag.ends_with('/') || tag.contains('<') || tag.contains('&') {
        return false;
    }
    let is_ws = |c: char| matches!(c, ' ' | '\t' | '\n' | '\r');
    let name_end = tag.find(is_ws).unwrap_or(tag.len());
    let name = &tag[..name_end];
    let (prefix, local) = match name.split_once(':') {
        Some((p, l)) => (Some(p), l),
        None => (None, name),
    };
    let ok_name = |n: &str| {
        !n.is_empty()
            && n.chars().all(|c| c.is_ascii_alphanumeric() || matches!(c, '-' | '_' | '.'))
            && !n.starts_with(|c: char| c.is_ascii_digit() || c == '-' || c == '.')
    };
    if local != "rpc-reply" || prefix.is_some_and(|p| !ok_name(p)) {
        return false;
    }
    // attributes
    let mut attrs: Vec<(String, String)> = Vec::new();
    let mut rest = &tag[name_end..];
    loop {
        let trimmed = rest.trim_start_matches(is_ws);
        if trimmed.is_empty() {
            break;
        }
        if trimmed.len() == rest.len() {
            return false; // no white space before the attribute
        }
        let Some(eq) = trimmed.find('=') else { return false };
        let key = trimmed[..eq].trim_end_matches(is_ws);
        let key_ok = match key.split_once(':') {
            Some((p, l)) => ok_name(p) && ok_name(l),
            None => ok_name(key),
        };
        if !key_ok {
            return false;
        }
        let after = trimmed[eq + 1..].trim_start_matches(is_ws);
        let Some(q) = after.chars().next().filter(|c| *c == '"' || *c == '\'') else { return false };
        let Some(close) = after[1..].find(q) else { return false };
        let value = &after[1..1 + close];
        if attrs.iter().any(|(k, _)| k == key) {
            return false;
        }
        attrs.push((key.to_string(), value.to_string()));
        rest = &after[close + 2..];
    }
    let ns_key = match prefix {
        Some(p) => format!("xmlns:{p}"),
        None => "xmlns".to_string(),
    };
    attrs.iter().any(|(k, v)| *k == ns_key && v == BASE)
        && attrs.iter().any(|(k, v)| k == "message-id" && v == id)
}

/// The other request's future (B) is the one reading when the damaged bytes - a reply to A -
/// arrive, followed by B's valid reply. B's reader has to hand the damaged message over to A (or,
/// if it cannot tell whose it is, fail with a read error - then it is "the affected call"); if the
/// bytes visibly bear A's message-id in a well-formed start tag, B must receive its own reply.
pub fn feed_reply_other_reads(spec: &ReqSpec, bytes: &[u8]) -> Fed {
    let (mut sess, wire) = establish_caps(&all_caps());
    let fut_b = match drive(sess.rpc::<GetConfig<Opaque>, _>(|b| {
        b.source(Ds::Running.to_lib())?.finish()
    })) {
        Some(Ok(f)) => f,
        other => {
            return Fed::OtherCallerBroken(format!(
                "harness: cannot send request B: {:?}",
                other.map(|r| r.map(|_| ()))
            ))
        }
    };
    let id_b = wire
        .sent()
        .last()
        .and_then(|m| message_id_lenient(m))
        .unwrap_or_default();
    // request A is sent but its future is not polled
    let sent_before = wire.sent().len();
    let fut_a = match drive(sess.rpc::<GetConfig<Opaque>, _>(|b| {
        b.source(Ds::Running.to_lib())?.finish()
    })) {
        Some(Ok(f)) => f,
        _ => return Fed::OtherCallerBroken("harness: cannot send request A".into()),
    };
    let id_a = wire
        .sent()
        .get(sent_before)
        .and_then(|m| message_id_lenient(m))
        .unwrap_or_default();
    let _ = spec;
    // only judged when the damaged message starts with a well-formed <rpc-reply ...> start tag
    // that bears A's id (then anybody can tell whose reply it is)
    let text = String::from_utf8_lossy(bytes);
    // the root start tag: the first tag whose name is (prefix:)rpc-reply, with nothing but
    // comments, white space and an XML declaration before it
    let addressed_to_a = std::str::from_utf8(bytes).is_ok() && {
        let mut rest = text.trim_start();
        loop {
            if let Some(r) = rest.strip_prefix("<?xml") {
                match r.find("?>") {
                    // (a declaration that is itself damaged stops the reader before the root)
                    Some(i)
                        if crate::xmlstrict::parse_document(&format!("<?xml{}?><a/>", &r[..i])).is_ok() =>
                    {
                        rest = r[i + 2..].trim_start();
                    }
                    _ => break false,
                }
            } else if let Some(r) = rest.strip_prefix("<!--") {
                match r.find("-->") {
                    Some(i) if !r[..i].contains("--") => rest = r[i + 3..].trim_start(),
                    _ => break false,
                }
            } else if rest.starts_with('<') {
                let Some(gt) = rest.find('>') else { break false };
                let tag = &rest[1..gt];
                break root_tag_is_reply_to(tag, &id_a);
            } else {
                break false;
            }
        }
    };
    // bytes that claim to be the reply to B itself are B's business (whatever they hold)
    if text.contains(&format!("message-id=\"{id_b}\"")) || text.contains(&format!("message-id='{id_b}'")) {
        return Fed::Returned { parsed_beyond_root: false };
    }
    wire.push(bytes.to_vec());
    wire.push(
        format!(
            "<rpc-reply xmlns=\"{NS_BASE}\" message-id=\"{id_b}\"><data>{TAG}</data></rpc-reply>{MARKER}"
        )
        .into_bytes(),
    );
    let b = drive(fut_b);
    drop(fut_a);
    match b {
        None => Fed::OtherCallerBroken("request B never resolved although its reply arrived".into()),
        Some(Ok(v)) if &*v == TAG => Fed::Returned { parsed_beyond_root: true },
        Some(Ok(v)) => Fed::OtherCallerBroken(format!("request B got foreign data {v:?}")),
        Some(Err(_)) if !addressed_to_a => Fed::Returned { parsed_beyond_root: false },
        Some(Err(e)) => Fed::OtherCallerBroken(format!(
            "request B failed with {e:?} because its reader met a damaged reply whose start tag plainly bears the other request's message-id {id_a}; B's own intact reply followed"
        )),
    }
}

/// The bytes are an *extra* frame: afterwards the server still answers the first request (A)
/// with a well-formed reply, then the other one (B). Only judged when the bytes cannot be
/// attributed to any request (no `message-id` in them at all, or not UTF-8): the call that read
/// them has failed, A's late reply belongs to nobody's pending call, and B - whose reply arrives
/// intact - must still get it.
pub fn feed_reply_then_late_reply(spec: &ReqSpec, bytes: &[u8]) -> Fed {
    let attributable = std::str::from_utf8(bytes).is_ok_and(|t| t.contains("message-id"));
    if attributable {
        return feed_reply_raw_ordered(spec, bytes, false);
    }
    let (mut sess, wire) = establish_caps(&all_caps());
    let fut_b = match drive(sess.rpc::<GetConfig<Opaque>, _>(|b| {
        b.source(Ds::Running.to_lib())?.finish()
    })) {
        Some(Ok(f)) => f,
        other => {
            return Fed::OtherCallerBroken(format!(
                "harness: cannot send request B: {:?}",
                other.map(|r| r.map(|_| ()))
            ))
        }
    };
    let id_b = wire
        .sent()
        .last()
        .and_then(|m| message_id_lenient(m))
        .unwrap_or_default();
    let bytes_a = bytes.to_vec();
    let mut id_a = String::new();
    let (_s, _req, out) = crate::ops::run_req(sess, &wire, spec, |id| {
        id_a = id.to_string();
        vec![bytes_a]
    });
    match out {
        crate::ops::Outcome::SendStuck | crate::ops::Outcome::Refused(_) => {
            return Fed::OtherCallerBroken(format!("harness: request A not sent: {out:?}"))
        }
        crate::ops::Outcome::Stuck => {
            return Fed::Stuck("reply future of the request that received the bytes")
        }
        _ => {}
    }
    wire.push(
        format!("<rpc-reply xmlns=\"{NS_BASE}\" message-id=\"{id_a}\"><ok/></rpc-reply>{MARKER}")
            .into_bytes(),
    );
    wire.push(
        format!(
            "<rpc-reply xmlns=\"{NS_BASE}\" message-id=\"{id_b}\"><data>{TAG}</data></rpc-reply>{MARKER}"
        )
        .into_bytes(),
    );
    match drive(fut_b) {
        None => Fed::OtherCallerBroken("request B never resolved although its reply arrived".into()),
        Some(Ok(v)) if &*v == TAG => Fed::Returned {
            parsed_beyond_root: false,
        },
        Some(Ok(v)) => Fed::OtherCallerBroken(format!("request B got foreign data {v:?}")),
        Some(Err(e)) => Fed::OtherCallerBroken(format!(
            "request B failed with {e:?}: an undecodable extra frame made the first request fail, the server then answered both requests with well-formed replies, and B's intact reply was not delivered"
        )),
    }
}

pub fn feed_reply_raw_ordered(spec: &ReqSpec, bytes: &[u8], b_first: bool) -> Fed {
    if b_first {
        return feed_reply_b_first(spec, bytes);
    }
    let r = (|| {
        let (mut sess, wire) = establish_caps(&all_caps());
        // request B first needs the session by reference; A may consume it (close-session), so
        // issue B first and A second; ids: B = 1, A = 2
        let fut_b = match drive(sess.rpc::<GetConfig<Opaque>, _>(|b| {
            b.source(Ds::Running.to_lib())?.finish()
        })) {
            Some(Ok(f)) => f,
            other => {
                return Fed::OtherCallerBroken(format!(
                    "harness: cannot send request B: {:?}",
                    other.map(|r| r.map(|_| ()))
                ))
            }
        };
        let id_b = wire
            .sent()
            .last()
            .and_then(|m| message_id_lenient(m))
            .unwrap_or_default();
        let bytes_a = bytes.to_vec();
        let (_s, _req, out) = crate::ops::run_req(sess, &wire, spec, |_id| vec![bytes_a]);
        // does the garbage itself claim to be the reply to B? then A has not been answered at all
        // (it rightly keeps waiting) and B's oracle does not apply
        let text = String::from_utf8_lossy(bytes);
        let targets_b = text.contains(&format!("message-id=\"{id_b}\""))
            || text.contains(&format!("message-id='{id_b}'"))
            || text.contains(&format!("message-id = \"{id_b}\""));
        if matches!(out, crate::ops::Outcome::Stuck) {
            // A keeps waiting. That is right when the bytes were a reply to B (A has not been
            // answered at all). Decided by observation, not by searching the text (a libFuzzer
            // input wrote `message-id<100 tabs>='1'`, which is B's id in legal XML): if B resolves
            // now, without its own reply having been pushed, the message was routed to B.
            if targets_b || drive(fut_b).is_some() {
                return Fed::Returned {
                    parsed_beyond_root: true,
                };
            }
            return Fed::Stuck("reply future of the request that received the bytes");
        }
        if matches!(out, crate::ops::Outcome::SendStuck | crate::ops::Outcome::Refused(_)) {
            return Fed::OtherCallerBroken(format!("harness: request A not sent: {out:?}"));
        }
        let parsed = !matches!(&out, crate::ops::Outcome::OtherErr(e) if e.contains("DecodeMessage"));
        if targets_b {
            return Fed::Returned {
                parsed_beyond_root: parsed,
            };
        }
        // now B's valid reply arrives
        wire.push(
            format!(
                "<rpc-reply xmlns=\"{NS_BASE}\" message-id=\"{id_b}\"><data>{TAG}</data></rpc-reply>{MARKER}"
            )
            .into_bytes(),
        );
        match drive(fut_b) {
            None => Fed::OtherCallerBroken("request B never resolved although its reply arrived".into()),
            Some(Ok(v)) if &*v == TAG => Fed::Returned {
                parsed_beyond_root: parsed,
            },
            Some(Ok(v)) => Fed::OtherCallerBroken(format!("request B got foreign data {v:?}")),
            Some(Err(e)) => {
                // B's reader may have met the garbage instead (if A did not consume it): that is
                // the documented behaviour for a reply nobody asked for. Only a wrong *value* or a
                // missing resolution is a violation; but if the garbage was already consumed by A,
                // B must succeed.
                Fed::OtherCallerBroken(format!("request B failed with {e:?} after the garbage was consumed by the first caller"))
            }
        }
    })();
    r
}

pub fn render_base(base: &Base, style: &Style) -> Vec<u8> {
    match base {
        Base::Hello(h) => {
            let (tree, _) = c12::hello_tree(h);
            render_message(&tree, style).into_bytes()
        }
        Base::Reply { items, .. } => render_message(&reply_x("2", items), style).into_bytes(),
        Base::Raw(b) => b.clone(),
    }
}

pub struct Mutations;

fn late(spec: &ReqSpec, bytes: &[u8], obs: &mut Obs) -> Fed {
    if !std::str::from_utf8(bytes).is_ok_and(|t| t.contains("message-id")) {
        obs.class("order:extra-frame-then-late-reply-to-the-first-request");
    }
    let (spec, b) = (spec.clone(), bytes.to_vec());
    match catch(move || feed_reply_then_late_reply(&spec, &b)) {
        Ok(f) => f,
        Err((loc, msg)) => Fed::Panicked(loc, msg),
    }
}

impl Prop for Mutations {
    type Case = Case;
    fn case_time_limit_s(&self) -> u64 {
        60
    }
    fn hang_is_violation(&self) -> bool {
        // "in bounded time" is the property: a call that never comes back is the violation
        true
    }
    fn name(&self) -> &'static str {
        "mutations"
    }
    fn rule(&self) -> String {
        "a valid server hello or rpc-reply (for every operation's reply type) generated from the \
         grammars in a generated style, damaged by 0..4 mutations (truncate, delete range, flip \
         byte, insert random or markup bytes, duplicate an element, replace a number by 0 / 2^64 / \
         10^100 / -1 / 2^32, insert a non-UTF-8 byte, nest up to 11000 deep, splice a second copy, \
         wrong namespace, missing or doubled delimiter, and structure-preserving edits of one text node or attribute value: truncate / drop front / delete, insert or duplicate a character / empty / replace by an absurd number or a malformed URI, prefix or length range), or raw random bytes. Non-trivial = the \
         damaged input is still UTF-8 and gets past the message root (i.e. is not rejected by the \
         UTF-8 check alone); distinct by input"
            .into()
    }
    fn cases(&self, tier: Tier) -> u32 {
        tier.pick(400_000, 8_000_000)
    }
    fn strategy(&self, tier: Tier) -> BoxedStrategy<Case> {
        let hello = c12::HelloMatrix.strategy(tier).prop_map(Base::Hello);
        let reply = c08::C08.strategy(tier).prop_map(|c| Base::Reply {
            op: c.op,
            items: c.items,
        });
        let raw = prop::collection::vec(any::<u8>(), 0..200).prop_map(Base::Raw);
        (
            prop_oneof![3 => hello, 6 => reply, 1 => raw],
            style_strategy(),
            prop::collection::vec(mutation(), 0..4),
            prop::bool::weighted(0.3),
            prop::bool::weighted(0.3),
            prop::bool::weighted(0.25),
        )
            .prop_map(|(base, style, mutations, b_first, late_reply, other_reads)| Case {
                base,
                style,
                mutations,
                b_first,
                late_reply: late_reply && !b_first,
                other_reads: other_reads && !b_first && !late_reply,
            })
            .boxed()
    }
    fn check(&self, case: &Case) -> Obs {
        let mut obs = Obs::default();
        let mut bytes = render_base(&case.base, &case.style);
        for m in &case.mutations {
            bytes = apply(bytes, m);
        }
        let fed = match &case.base {
            Base::Hello(_) => {
                obs.class("target:hello");
                feed_hello(&bytes)
            }
            Base::Reply { op, .. } => {
                let ops = ReqSpec::canonical();
                let spec = &ops[*op as usize % ops.len()];
                obs.class(format!("target:reply:{:?}", spec.reply_kind()));
                if case.b_first {
                    obs.class("order:other-reply-parked-first");
                }
                if case.late_reply {
                    late(spec, &bytes, &mut obs)
                } else if case.other_reads {
                    obs.class("order:the-other-request's-reader-meets-the-damaged-reply");
                    let (sp, b) = (spec.clone(), bytes.clone());
                    match catch(move || feed_reply_other_reads(&sp, &b)) {
                        Ok(f) => f,
                        Err((loc, msg)) => Fed::Panicked(loc, msg),
                    }
                } else {
                    feed_reply_ordered(spec, &bytes, case.b_first)
                }
            }
            Base::Raw(_) => {
                obs.class("target:raw-as-reply");
                if case.late_reply {
                    late(&ReqSpec::canonical()[1], &bytes, &mut obs)
                } else {
                    feed_reply_ordered(&ReqSpec::canonical()[1], &bytes, case.b_first)
                }
            }
        };
        for m in &case.mutations {
            let n = format!("{m:?}");
            obs.class(format!("mutation:{}", n.split('(').next().unwrap_or(&n)));
        }
        match fed {
            Fed::Returned { parsed_beyond_root } => {
                obs.nontrivial = parsed_beyond_root && std::str::from_utf8(&bytes).is_ok();
            }
            Fed::Panicked(loc, msg) => obs.fail(
                format!("panic:{loc}"),
                format!("panic at {loc}: {msg}; input {:?}", String::from_utf8_lossy(&bytes)),
            ),
            Fed::Stuck(what) => obs.fail(
                "never-resolves",
                format!("{what} never resolves; input {:?}", String::from_utf8_lossy(&bytes)),
            ),
            Fed::OtherCallerBroken(msg) => obs.fail(
                "other-request-disturbed",
                format!("{msg}; input {:?}", String::from_utf8_lossy(&bytes)),
            ),
        }
        obs
    }
    fn assumptions(&self) -> Vec<String> {
        vec![
            "the bytes are handed to the session as one framed message (framing itself is C06's subject)".into(),
            "the 'other request' oracle is skipped when the damaged bytes themselves carry the other request's message-id".into(),
            "non-termination inside one call is detected by the harness watchdog (exit 2) and by libFuzzer's -timeout in the fuzz targets".into(),
        ]
    }
}

pub fn property() -> Property {
    Property {
        id: "C14",
        level: "exploration",
        parts: vec![
            Box::new(PropPart(Mutations)),
            Box::new(PropPart(crate::props::agent_parts::C14Agent)),
            Box::new(FuzzPart),
        ],
    }
}

// ------------------------------------------------------------------ coverage-guided fuzzing

/// The libFuzzer campaign (cargo-fuzz targets under /verif/fuzz call the same entry functions).
/// Quick tier: the committed seed corpus is replayed in-process. Thorough tier: `cargo +nightly
/// fuzz run` on every target with all cores under a wall-clock budget; any crash artifact is
/// re-verified in-process before it is reported.
pub struct FuzzPart;

fn fuzz_dir() -> std::path::PathBuf {
    crate::core::verif_root().join("fuzz")
}

/// run one raw input through the entry function of `target`; `Some(failure)` on a violation
pub fn fuzz_one(target: &str, data: &[u8]) -> Option<(String, String)> {
    let fed = match target {
        "hello" => feed_hello(data),
        "reply" => {
            let Some((op, bytes)) = data.split_first() else {
                return None;
            };
            let ops = ReqSpec::canonical();
            feed_reply_ordered(&ops[(*op & 0x7f) as usize % ops.len()], bytes, *op & 0x80 != 0)
        }
        _ => {
            let Some((which, bytes)) = data.split_first() else {
                return None;
            };
            let cand = which & 1 == 0;
            let b = bytes.to_vec();
            match catch(move || crate::props::agent_parts::feed_agent_reader_raw(cand, &b)) {
                Ok(Ok(())) => Fed::Returned {
                    parsed_beyond_root: true,
                },
                Ok(Err(e)) => Fed::Stuck(Box::leak(e.into_boxed_str())),
                Err((loc, msg)) => Fed::Panicked(loc, msg),
            }
        }
    };
    match fed {
        Fed::Returned { .. } => None,
        Fed::Panicked(loc, msg) => Some((format!("panic:{loc}"), format!("panic at {loc}: {msg}"))),
        Fed::Stuck(w) => Some(("never-resolves".into(), format!("{w} never resolves"))),
        Fed::OtherCallerBroken(m) => Some(("other-request-disturbed".into(), m)),
    }
}

impl crate::core::Part for FuzzPart {
    fn name(&self) -> &'static str {
        "libfuzzer"
    }
    fn run(&self, ctx: &crate::core::RunCtx) -> crate::core::PartReport {
        let start = std::time::Instant::now();
        let mut rep = crate::core::PartReport {
            name: "libfuzzer".into(),
            rule: "coverage-guided fuzzing (cargo-fuzz / libFuzzer, nightly, debug assertions and overflow checks on) of three targets that call the same entry functions as the proptest parts: `hello` (bytes as the server hello), `reply` (first byte selects the operation, rest is the reply; a second outstanding request's valid reply must still be delivered), `agent_config` (bytes as the reply to the agent's get-config requests). Quick tier: in-process replay of the committed seed corpus; thorough tier: a campaign per target on all cores under a wall-clock budget, crash artifacts re-verified in-process. Non-trivial = an input that does not fail the UTF-8 check; distinct by input".into(),
            ..Default::default()
        };
        let targets = ["hello", "reply", "agent_config"];
        // seed corpus replay (both tiers)
        for t in targets {
            let dir = fuzz_dir().join("seeds").join(t);
            let mut files: Vec<_> = std::fs::read_dir(&dir)
                .map(|d| d.filter_map(Result::ok).map(|e| e.path()).collect())
                .unwrap_or_default();
            files.sort();
            for f in files {
                let Ok(data) = std::fs::read(&f) else { continue };
                rep.evaluations += 1;
                *rep.classes.entry(format!("seed:{t}")).or_default() += 1;
                let _watch = {
                    let (t2, d2) = (t.to_string(), data.clone());
                    crate::core::watch_case(
                        ctx.property,
                        "libfuzzer",
                        60,
                        true,
                        ctx.seed,
                        ctx.tier,
                        Box::new(move || serde_json::json!({"target": t2, "bytes": d2})),
                    )
                };
                if std::str::from_utf8(&data).is_ok() {
                    use std::hash::{Hash, Hasher};
                    let mut h = std::collections::hash_map::DefaultHasher::new();
                    (t, &data).hash(&mut h);
                    if rep.nontrivial_hashes.insert(h.finish()) && rep.samples.len() < 3 {
                        rep.samples.push(serde_json::json!({"target": t, "input": String::from_utf8_lossy(&data[..data.len().min(300)])}));
                    }
                }
                if let Some((sig, msg)) = fuzz_one(t, &data) {
                    if ctx.known.is_known(ctx.property, &sig) {
                        *rep.known_hits.entry(sig).or_default() += 1;
                    } else if rep.violation.is_none() {
                        rep.violation = Some((sig, msg, serde_json::json!({"target": t, "bytes": data})));
                    }
                }
            }
        }
        if ctx.tier == Tier::Thorough && rep.violation.is_none() {
            let budget: u64 = std::env::var("VERIF_FUZZ_SECONDS")
                .ok()
                .and_then(|v| v.parse().ok())
                .unwrap_or(300);
            for t in targets {
                let corpus = crate::core::verif_root().join("target").join("fuzz-corpus").join(t);
                let _ = std::fs::create_dir_all(&corpus);
                if let Ok(rd) = std::fs::read_dir(fuzz_dir().join("seeds").join(t)) {
                    for e in rd.filter_map(Result::ok) {
                        let _ = std::fs::copy(e.path(), corpus.join(e.file_name()));
                    }
                }
                let art = crate::core::verif_root().join("target").join("fuzz-artifacts").join(t);
                let _ = std::fs::remove_dir_all(&art);
                let _ = std::fs::create_dir_all(&art);
                let out = std::process::Command::new("cargo")
                    .current_dir(crate::core::verif_root().join("harness"))
                    .args(["+nightly", "fuzz", "run", "--fuzz-dir"])
                    .arg(fuzz_dir())
                    .arg(t)
                    .arg(&corpus)
                    .arg("--")
                    .arg(format!("-max_total_time={budget}"))
                    .arg(format!("-artifact_prefix={}/", art.display()))
                    .args([
                        "-timeout=20",
                        "-rss_limit_mb=4096",
                        "-len_control=0",
                        "-max_len=8192",
                        "-print_final_stats=1",
                        &format!("-seed={}", ctx.seed.max(1) as u32),
                        &format!("-dict={}", fuzz_dir().join("netconf.dict").display()),
                        &format!("-fork={}", ctx.threads.clamp(1, 16)),
                        "-ignore_crashes=0",
                    ])
                    .env("CARGO_NET_OFFLINE", "true")
                    .output();
                match out {
                    Err(e) => {
                        *rep.classes.entry(format!("campaign:{t}:could-not-start({e})")).or_default() += 1;
                    }
                    Ok(o) => {
                        let log = format!(
                            "{}{}",
                            String::from_utf8_lossy(&o.stdout),
                            String::from_utf8_lossy(&o.stderr)
                        );
                        let execs: u64 = log
                            .lines()
                            .filter_map(|l| l.strip_prefix("stat::number_of_executed_units:"))
                            .filter_map(|v| v.trim().parse::<u64>().ok())
                            .sum::<u64>()
                            .max(
                                log.lines()
                                    .filter(|l| l.starts_with('#') && l.contains("exec/s"))
                                    .filter_map(|l| l[1..].split_whitespace().next()?.trim_end_matches(':').parse::<u64>().ok())
                                    .max()
                                    .unwrap_or(0),
                            );
                        rep.evaluations += execs;
                        *rep.classes.entry(format!("campaign:{t}:executions")).or_default() += execs;
                        // artifacts = crashes / timeouts / ooms
                        let mut arts: Vec<_> = std::fs::read_dir(&art)
                            .map(|d| d.filter_map(Result::ok).map(|e| e.path()).collect())
                            .unwrap_or_default();
                        arts.sort();
                        for a in arts {
                            let Ok(data) = std::fs::read(&a) else { continue };
                            let name = a.file_name().map(|n| n.to_string_lossy().to_string()).unwrap_or_default();
                            // re-verify in-process (on a watched thread: a timeout artifact loops)
                            let (t2, d2) = (t.to_string(), data.clone());
                            let verdict = crate::core::with_watchdog(
                                std::time::Duration::from_secs(30),
                                move || fuzz_one(&t2, &d2),
                            );
                            let failure = match verdict {
                                None => Some(("never-returns".to_string(), format!("artifact {name}: the call does not return within 30 s"))),
                                Some(f) => f,
                            };
                            match failure {
                                Some((sig, msg)) if !ctx.known.is_known(ctx.property, &sig) => {
                                    if rep.violation.is_none() {
                                        rep.violation = Some((sig, format!("{msg} (libFuzzer artifact {name})"), serde_json::json!({"target": t, "bytes": data})));
                                    }
                                }
                                Some((sig, _)) => *rep.known_hits.entry(sig).or_default() += 1,
                                None => {
                                    *rep.classes.entry(format!("campaign:{t}:artifact-not-reproduced({name})")).or_default() += 1;
                                }
                            }
                        }
                    }
                }
                if rep.violation.is_some() {
                    break;
                }
            }
        }
        rep.assumptions = vec!["libFuzzer campaigns are only approximately reproducible from -seed; the saved input is the reproducible unit".into()];
        rep.wall_s = start.elapsed().as_secs_f64();
        rep
    }
    fn replay_limit(&self) -> (u64, bool) {
        (60, true)
    }
    fn replay(&self, case: &serde_json::Value) -> Result<Obs, String> {
        let target = case["target"].as_str().ok_or("no target")?.to_string();
        let bytes: Vec<u8> = serde_json::from_value(case["bytes"].clone()).map_err(|e| e.to_string())?;
        let mut obs = Obs::default();
        if let Some((sig, msg)) = fuzz_one(&target, &bytes) {
            obs.fail(sig, msg);
        }
        Ok(obs)
    }
}

/// write a seed corpus for the fuzz targets from the proptest generators (run once; committed)
pub fn write_fuzz_seeds(n: usize) -> std::io::Result<usize> {
    use proptest::strategy::{Strategy, ValueTree};
    use proptest::test_runner::{Config, RngAlgorithm, TestRng, TestRunner};
    let mut runner = TestRunner::new_with_rng(
        Config::default(),
        TestRng::from_seed(RngAlgorithm::ChaCha, &[7u8; 32]),
    );
    let mut count = 0;
    let strat = Mutations.strategy(Tier::Quick);
    let base = fuzz_dir().join("seeds");
    for t in ["hello", "reply", "agent_config"] {
        std::fs::create_dir_all(base.join(t))?;
    }
    let mut i = 0;
    while count < n && i < n * 20 {
        i += 1;
        let Ok(tree) = strat.new_tree(&mut runner) else { continue };
        let mut case = tree.current();
        case.mutations.truncate(1);
        let mut bytes = render_base(&case.base, &case.style);
        for m in &case.mutations {
            bytes = apply(bytes, m);
        }
        if bytes.len() > 4000 {
            continue;
        }
        let (t, data) = match &case.base {
            Base::Hello(_) => ("hello", bytes),
            Base::Reply { op, .. } => {
                let mut d = vec![*op];
                d.extend(bytes);
                ("reply", d)
            }
            Base::Raw(_) => continue,
        };
        std::fs::write(base.join(t).join(format!("seed-{count:04}")), data)?;
        count += 1;
    }
    // agent configuration seeds
    let astrat = crate::props::agent_parts::C14Agent.strategy(Tier::Quick);
    let mut k = 0;
    while k < n / 3 {
        let Ok(tree) = astrat.new_tree(&mut runner) else { continue };
        let case = tree.current();
        let (bytes, cand) = crate::props::agent_parts::render_garbage(&case);
        if bytes.len() > 6000 {
            continue;
        }
        let mut d = vec![u8::from(!cand)];
        d.extend(bytes);
        std::fs::write(base.join("agent_config").join(format!("seed-{k:04}")), d)?;
        k += 1;
        count += 1;
    }
    Ok(count)
}
