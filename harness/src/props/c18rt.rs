//! C18 on the real transports (engine E): the reply future that is reading from the transport is
//! dropped in the middle of a message; the other outstanding requests and a further request must
//! still complete with their own replies. The in-memory part of C18 owns the schedule but cannot
//! see whether a *transport's* `recv` is cancellation safe; this part can.

use std::time::Duration;

use proptest::prelude::*;
use serde::{Deserialize, Serialize};

use crate::{
    core::{Obs, Prop, Tier},
    props::c06::{run_session, ClientPlan, Tr},
    script::{hello_bytes, reply_message, Script, Step},
    sess::{BASE10, CAP_CANDIDATE},
};

#[derive(Debug, Clone, Serialize, Deserialize)]
pub struct Case {
    pub transport: Tr,
    /// pipelined requests (2..=4); the first one's future is the reader that gets dropped
    pub k: u8,
    /// where reply 1 is cut (fraction of its length)
    pub cut: u16,
    /// extra payload bytes of reply 1
    pub pad: u16,
    /// the rest of reply 1 is in the same unit as the following replies (else in a unit of its own)
    pub rest_with_others: bool,
}

const PAUSE_MS: u64 = 400;
const DROP_AFTER_MS: u64 = 150;

fn payload(m: usize, pad: usize) -> String {
    format!("<t xmlns=\"urn:verif\" m=\"{m}\">{}</t>", "x".repeat(pad))
}

fn script_for(case: &Case) -> Script {
    let k = case.k.clamp(2, 4) as usize;
    let hello = hello_bytes(&[BASE10, CAP_CANDIDATE], 18);
    let first = reply_message("1", &payload(0, case.pad as usize));
    let cut = ((case.cut as usize * first.len()) >> 16).clamp(1, first.len() - 1);
    let mut others = Vec::new();
    for m in 1..k {
        others.extend_from_slice(&reply_message(&(m + 1).to_string(), &payload(m, 0)));
    }
    let mut steps = vec![
        Step::Write(hello),
        Step::AwaitMessages(1 + k),
        Step::Write(first[..cut].to_vec()),
        Step::Mark("part1".into()),
        Step::PauseMs(PAUSE_MS),
    ];
    if case.rest_with_others {
        let mut unit = first[cut..].to_vec();
        unit.extend_from_slice(&others);
        steps.push(Step::Write(unit));
    } else {
        steps.push(Step::Write(first[cut..].to_vec()));
        steps.push(Step::PauseMs(5));
        steps.push(Step::Write(others));
    }
    steps.push(Step::Mark("rest".into()));
    steps.push(Step::AwaitMessages(1 + k + 1));
    steps.push(Step::Write(reply_message(&(k + 1).to_string(), &payload(99, 0))));
    steps.push(Step::HoldMs(8000));
    Script { steps }
}

pub struct C18Real;

impl Prop for C18Real {
    type Case = Case;
    fn max_shrink_iters(&self) -> u32 {
        80
    }
    fn name(&self) -> &'static str {
        "real-transports"
    }
    fn rule(&self) -> String {
        format!(
            "transport {{TLS, SSH, local CLI}} x 2..4 pipelined requests; the peer writes the first part of reply 1 (cut position and reply size generated), pauses {PAUSE_MS} ms, then the rest and the other replies (in the same unit or not). The client awaits reply 1 alone - its future is the one reading from the transport - and drops it after {DROP_AFTER_MS} ms. Oracle: every other request and one further request complete with their own replies. Non-trivial = the drop fell between the two parts of the message (peer's time marks vs. the client's); distinct by case"
        )
    }
    fn cases(&self, tier: Tier) -> u32 {
        tier.pick(36, 3_000)
    }
    fn max_threads(&self) -> usize {
        6
    }
    fn fixed_cases(&self) -> Vec<Case> {
        let mut out = Vec::new();
        for transport in [Tr::Tls, Tr::Ssh, Tr::Local] {
            for rest_with_others in [true, false] {
                out.push(Case {
                    transport,
                    k: 3,
                    cut: 32768,
                    pad: 0,
                    rest_with_others,
                });
            }
        }
        out
    }
    fn strategy(&self, _tier: Tier) -> BoxedStrategy<Case> {
        (
            prop_oneof![Just(Tr::Tls), Just(Tr::Ssh), Just(Tr::Local)],
            2u8..=4,
            any::<u16>(),
            prop_oneof![3 => Just(0u16), 2 => 0u16..2000, 1 => 2000u16..20000],
            any::<bool>(),
        )
            .prop_map(|(transport, k, cut, pad, rest_with_others)| Case {
                transport,
                k,
                cut,
                pad,
                rest_with_others,
            })
            .boxed()
    }
    fn check(&self, case: &Case) -> Obs {
        let mut obs = Obs::default();
        obs.class(format!("transport:{:?}", case.transport));
        let first = run_once(case, &mut obs);
        if let Some((sig, msg)) = first {
            // real sockets and timers: confirm by an immediate re-run before reporting
            let mut scratch = Obs::default();
            if run_once(case, &mut scratch).is_some() {
                obs.fail(sig, msg);
            } else {
                obs.class("not-reproduced(discarded)");
            }
        }
        obs
    }
    fn assumptions(&self) -> Vec<String> {
        vec![
            "the moment of the drop is chosen by a timer on real sockets: a run whose drop fell before the first part arrived or after the whole reply is still a valid (trivial) case of the property; the evidence counts the runs where it fell in between".into(),
            "a failure must reproduce on an immediate re-run before it is reported".into(),
        ]
    }
}

fn run_once(case: &Case, obs: &mut Obs) -> Option<(String, String)> {
    let k = case.k.clamp(2, 4) as usize;
    let script = script_for(case);
    let (tr, sc) = (case.transport, script.clone());
    let res = crate::core::with_watchdog(Duration::from_secs(40), move || {
        run_session(
            tr,
            &sc,
            ClientPlan::DropReader {
                k,
                drop_after_ms: DROP_AFTER_MS,
            },
        )
    });
    let t = format!("{:?}", case.transport).to_lowercase();
    let (client, marks) = match res {
        None => return Some((format!("{t}:client-never-returns"), "the client thread did not return within 40 s".into())),
        Some(Err(e)) => return Some(("harness-sanity:setup".into(), e)),
        Some(Ok(x)) => x,
    };
    match &client.established {
        Some(Ok(())) => {}
        other => return Some(("harness-sanity:establishment-failed:".to_string() + &t, format!("{other:?}; peer: {:?}", marks.error))),
    }
    let mark = |name: &str| marks.marks.iter().find(|(n, _)| n == name).map(|(_, t)| *t);
    match (client.dropped_at_ns, mark("part1"), mark("rest")) {
        (Some(d), Some(p1), Some(rest)) if p1 < d && d < rest => {
            obs.nontrivial = true;
            obs.class("dropped-between-the-two-parts-of-the-message");
        }
        (Some(_), _, _) => obs.class("dropped-outside-the-message(trivial)"),
        (None, _, _) => obs.class("first-reply-completed-before-the-drop(trivial)"),
    }
    for m in 1..k {
        let want = payload(m, 0);
        match client.replies.iter().find(|o| o.round == 0 && o.index == m) {
            None => return Some((format!("{t}:survivor-has-no-result"), format!("request {m} has no result"))),
            Some(o) => match &o.result {
                Ok(v) if *v == want => {}
                other => {
                    return Some((
                        format!("{t}:survivor-disturbed"),
                        format!(
                            "request {} of {k} (its reply was written completely by the peer) resolved with {other:?} instead of {want:?} after the reading future of request 1 was dropped {} (reply 1 cut at fraction {}, {} extra bytes)",
                            m + 1,
                            if obs.nontrivial { "between the two parts of reply 1" } else { "" },
                            case.cut,
                            case.pad
                        ),
                    ))
                }
            },
        }
    }
    let want = payload(99, 0);
    match client.replies.iter().find(|o| o.round == 1) {
        Some(o) if o.result.as_ref() == Ok(&want) => None,
        other => Some((
            format!("{t}:session-unusable-after-drop"),
            format!("the request issued after the drop gave {:?} instead of {want:?}", other.map(|o| &o.result)),
        )),
    }
}
