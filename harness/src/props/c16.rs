//! C16 — exactly the active, annotated, default-reject policy statements are managed.
//!
//! Engine A (`fetch_candidates` hook = the agent's real session + candidate reader) against a
//! generated running configuration rendered raw, with the attribute order, duplicated
//! `xmlns:jcmd` declarations, jcmd prefix, comment decoration and statement body under the
//! generator's control. Oracle: an independent selection written from the property text.

use std::{
    collections::BTreeMap,
    sync::{Arc, Mutex},
};

use proptest::prelude::*;
use rpsl::expr::MpFilterExpr;
use serde::{Deserialize, Serialize};

use crate::{
    core::{catch, Obs, Prop, PropPart, Property, Tier},
    fake_junos::{self, FakeJunos},
    mem::drive,
    running::{stmt_strategy, Body, Comment, Stmt},
};

#[derive(Debug, Clone, Serialize, Deserialize)]
pub struct Case {
    pub stmts: Vec<Stmt>,
}

pub struct C16;

fn ast(s: &str) -> Option<MpFilterExpr> {
    s.parse().ok()
}

impl Prop for C16 {
    type Case = Case;
    fn name(&self) -> &'static str {
        "candidate-selection"
    }
    fn rule(&self) -> String {
        "running configurations of 0..8 policy statements; each has a name (pool with XML \
         metacharacters, quotes, non-ASCII, duplicates), a jcmd:comment (absent / unrelated / \
         mentioning the marker in the middle / bgpfu-fltr: + valid expression / + malformed text) in \
         one of five decorations, jcmd:active (absent/true/false), an optional further attribute, a \
         generated attribute order, optionally duplicated xmlns:jcmd, any prefix for the jcmd \
         namespace, and a body (default reject / empty / other action / term + reject / reject and \
         more / from + reject). Non-trivial = at least one statement is selected and at least one \
         annotated statement is not; distinct by configuration"
            .into()
    }
    fn cases(&self, tier: Tier) -> u32 {
        tier.pick(40_000, 2_000_000)
    }
    fn strategy(&self, _tier: Tier) -> BoxedStrategy<Case> {
        prop::collection::vec(stmt_strategy(), 0..8)
            .prop_map(|stmts| Case { stmts })
            .boxed()
    }
    fn check(&self, case: &Case) -> Obs {
        let mut obs = Obs::default();
        let fake = Arc::new(Mutex::new(FakeJunos::new("bgpfu")));
        {
            let mut f = fake.lock().unwrap();
            f.running = case.stmts.clone();
            f.running_raw = true;
        }
        // independent selection
        let selected: Vec<(String, String)> =
            case.stmts.iter().filter_map(Stmt::selected).collect();
        let mut expected: BTreeMap<String, String> = BTreeMap::new();
        let mut duplicate = false;
        for (n, e) in &selected {
            if expected.insert(n.clone(), e.clone()).is_some() {
                duplicate = true;
            }
        }
        let annotated_not_selected = case
            .stmts
            .iter()
            .filter(|s| matches!(s.comment, Comment::Fltr(_) | Comment::Malformed(_)) && s.selected().is_none())
            .count();
        obs.nontrivial = !selected.is_empty() && annotated_not_selected > 0;
        for s in &case.stmts {
            if s.selected().is_some() {
                obs.class("stmt:selected");
            } else if s.active == Some(false) {
                obs.class("stmt:inactive");
            } else if !matches!(s.comment, Comment::Fltr(_)) {
                obs.class("stmt:not-annotated-or-malformed");
            } else {
                obs.class(format!("stmt:annotated-with-other-content:{:?}", s.body));
            }
        }
        if duplicate {
            obs.class("duplicate-selected-names");
        }
        let got = catch(|| {
            drive(bgpfu_junos_agent::verif::fetch_candidates(
                fake_junos::factory(&fake),
                "bgpfu",
            ))
        });
        match got {
            Err((loc, msg)) => obs.fail(format!("panic:{loc}"), format!("candidate reader panicked: {msg}")),
            Ok(None) => obs.fail("read-never-completes", "fetch of the candidates is stuck"),
            Ok(Some(Err(e))) => {
                if duplicate {
                    obs.class("result:rejected-duplicate");
                } else {
                    // which statement made the read fail?
                    let culprit = case.stmts.iter().find(|s| {
                        s.active != Some(false)
                            && matches!(s.comment, Comment::Fltr(_))
                            && !matches!(s.body, Body::Reject | Body::Empty)
                    });
                    let sig = match culprit {
                        Some(s) => format!(
                            "annotated-statement-with-other-content-aborts-the-whole-read:{}",
                            match &s.body {
                                Body::OtherAction(a) => format!("then-{a}"),
                                Body::TermThenReject => "term".into(),
                                Body::RejectAndMore => "reject-and-another-action".into(),
                                Body::FromThenReject => "from".into(),
                                Body::RejectPlus { inside_then, shape, .. } => format!(
                                    "reject-plus:{}:shape{shape}",
                                    if *inside_then { "inside-then" } else { "statement-level" }
                                ),
                                _ => "?".into(),
                            }
                        ),
                        None => "read-fails".to_string(),
                    };
                    obs.fail(
                        sig,
                        format!(
                            "reading the running configuration fails ({e:#}) instead of selecting {expected:?}; statements: {:?}",
                            case.stmts
                        ),
                    );
                }
            }
            Ok(Some(Ok(list))) => {
                if duplicate {
                    obs.fail(
                        "duplicate-managed-names-accepted",
                        format!("two selected statements share a name but the read succeeded: {list:?}"),
                    );
                    return obs;
                }
                let got: BTreeMap<String, String> = list.into_iter().collect();
                for (n, e) in &expected {
                    match got.get(n) {
                        None => {
                            let escaped = crate::xmlstrict::escape_text(n);
                            let sig = if got.contains_key(&escaped) && escaped != *n {
                                "name-returned-with-xml-escapes"
                            } else {
                                "managed-statement-not-selected"
                            };
                            obs.fail(
                                sig,
                                format!("statement {n:?} ({e}) should be selected; reader returned {got:?}"),
                            );
                        }
                        Some(ge) => {
                            if ast(ge) != ast(e) || ast(e).is_none() {
                                obs.fail(
                                    "expression-differs",
                                    format!("statement {n:?}: expression {e:?} was read as {ge:?}"),
                                );
                            }
                        }
                    }
                }
                for n in got.keys() {
                    if !expected.contains_key(n) {
                        let stmt = case.stmts.iter().find(|s| {
                            s.name == *n || crate::xmlstrict::escape_text(&s.name) == *n
                        });
                        let why = match stmt {
                            Some(s) if s.active == Some(false) => "inactive",
                            Some(s) if !matches!(s.comment, Comment::Fltr(_)) => "not-annotated",
                            Some(s) if s.body != Body::Reject => "other-content",
                            Some(_) => "name-mismatch",
                            None => "unknown-name",
                        };
                        if why == "name-mismatch" {
                            continue; // reported above as name-returned-with-xml-escapes
                        }
                        obs.fail(
                            format!("unmanaged-statement-selected:{why}"),
                            format!("statement {n:?} was selected although it is {why}; statements {:?}", case.stmts),
                        );
                    }
                }
            }
        }
        obs
    }
    fn assumptions(&self) -> Vec<String> {
        vec![
            "'inactive' means jcmd:active=\"false\" (the only spelling the repository's fixtures and reader know); comment decorations are the /* ... */ family Junos' annotate produces, or none".into(),
            "expressions are compared by AST equality through the rpsl parser".into(),
            "the reply is rendered raw (duplicate xmlns:jcmd attributes make it ill-formed XML exactly as Junos does)".into(),
        ]
    }
}

pub fn property() -> Property {
    Property {
        id: "C16",
        level: "exploration",
        parts: vec![Box::new(PropPart(C16))],
    }
}
