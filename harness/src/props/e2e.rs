//! Engine B end-to-end parts: the agent's real `Updater::run()` with the real evaluator against
//! fake IRRd + fake Junos, for C01 (convergence over histories), C03 (IRR-side failures) and C11
//! ("the agent installs exactly that set").

use std::{
    collections::BTreeMap,
    sync::{Arc, Mutex},
};

use proptest::prelude::*;
use serde::{Deserialize, Serialize};

use crate::{
    core::{Obs, Prop, Tier},
    fake_junos::{self, FakeJunos},
    fullrun::{full_run, RunResult},
    irr::{compare, Answer, Db, Expect, Expr, FakeIrrd, Op, Oracle, RsMember},
    junos_model::{accept_entries, Config, PRange},
    mem::drive,
    props::{
        c01::{History, Marking, V4_POOL, V6_POOL},
        c04::prefixes_of,
        c11,
    },
    running::{Comment, Stmt, MALFORMED_POOL, NAME_POOL},
};

/// how a failing evaluation is produced on the IRR side
#[derive(Debug, Clone, Copy, PartialEq, Eq, Serialize, Deserialize)]
pub enum FailMode {
    UnknownAsSet,
    NotUnique,
    OtherError,
    /// the expression is valid mp-filter syntax the evaluator cannot evaluate: an AS-path regular
    /// expression (`<^AS65000>`, written `&lt;^AS65000&gt;` in the configuration's attribute)
    AsPathRegexp,
    /// an attribute match with a quoted argument (`&quot;` in the attribute)
    AttributeMatch,
}

#[derive(Debug, Clone, Serialize, Deserialize)]
pub struct E2eHistory {
    pub history: History,
    /// per run: how failing evaluations fail
    pub fail_modes: Vec<FailMode>,
    /// per run: the IRR server cannot be reached at all
    pub irr_down: Vec<bool>,
}

fn installed_ranges(cfg: &Config, name: &str) -> Option<Vec<PRange>> {
    let pol = cfg.get(name)?;
    let mut v = Vec::new();
    for fam in ["inet", "inet6"] {
        for e in accept_entries(pol, fam) {
            v.push(PRange::from_entry(&e)?);
        }
    }
    Some(v)
}

/// Build the world of one run of a history.
fn world(
    h: &E2eHistory,
    r: usize,
    names: &[String],
) -> (Vec<Stmt>, Db, Vec<Option<Expr>>) {
    let run = &h.history.runs[r];
    let mode = h.fail_modes.get(r).copied().unwrap_or(FailMode::UnknownAsSet);
    let mut stmts = Vec::new();
    let mut db = Db {
        empty_as_c: true,
        ..Db::default()
    };
    let mut exprs = Vec::new();
    for (i, p) in run.policies.iter().enumerate() {
        let Some(name) = names.get(i) else {
            exprs.push(None);
            continue;
        };
        let rs = format!("RS-P{i}");
        let mut members: Vec<RsMember> = Vec::new();
        for pfx in prefixes_of(V4_POOL, p.v4)
            .into_iter()
            .chain(prefixes_of(V6_POOL, p.v6))
        {
            let m = RsMember::Prefix(pfx, Op::None);
            if !members.contains(&m) {
                members.push(m);
            }
        }
        db.route_sets.insert(rs.clone(), members);
        let (text, expr) = if p.eval_fails
            && matches!(mode, FailMode::AsPathRegexp | FailMode::AttributeMatch)
        {
            (
                if mode == FailMode::AsPathRegexp {
                    format!("{rs} AND <^AS{}>", 65000 + i)
                } else {
                    format!("{rs} AND community.contains({}:1)", 65000 + i)
                },
                None,
            )
        } else if p.eval_fails {
            // (two failing policies may name the same as-set)
            let n = format!("AS-FAIL{}", i % 2);
            match mode {
                FailMode::AsPathRegexp | FailMode::AttributeMatch => {}
                FailMode::UnknownAsSet => {}
                FailMode::NotUnique => {
                    db.as_sets.insert(n.clone(), vec!["AS65001".into()]);
                    db.errors.insert(n.clone(), Answer::NotUnique);
                }
                FailMode::OtherError => {
                    db.as_sets.insert(n.clone(), vec!["AS65001".into()]);
                    db.errors.insert(n.clone(), Answer::Other);
                }
            }
            (n, None)
        } else {
            (rs.clone(), Some(Expr::RouteSet(rs, Op::None)))
        };
        let stmt = match &p.marking {
            Marking::Managed => Stmt::managed(name, &text),
            Marking::MalformedAnnotation(k) => Stmt {
                comment: Comment::Malformed(
                    MALFORMED_POOL[*k as usize % MALFORMED_POOL.len()].to_string(),
                ),
                ..Stmt::managed(name, "x")
            },
            Marking::Unmanaged => Stmt::unmanaged(name),
            Marking::Inactive => Stmt {
                active: Some(false),
                ..Stmt::managed(name, &text)
            },
            Marking::Absent => {
                exprs.push(None);
                continue;
            }
            Marking::TakenOver(k) => Stmt {
                body: crate::running::Body::RejectPlus { inside_then: k & 1 == 0, before: k & 2 != 0, shape: k >> 2 },
                ..Stmt::managed(name, &text)
            },
        };
        exprs.push(if p.marking == Marking::Managed { expr } else { None });
        stmts.push(stmt);
    }
    (stmts, db, exprs)
}

fn semantic_equal(db: &Db, a: &Config, b: &Config) -> Result<(), String> {
    let na: Vec<&String> = a.policies.iter().map(|p| &p.name).collect();
    let nb: Vec<&String> = b.policies.iter().map(|p| &p.name).collect();
    if na != nb {
        return Err(format!("policy lists differ: {na:?} vs {nb:?}"));
    }
    let _ = db;
    for p in &a.policies {
        let ra = installed_ranges(a, &p.name).unwrap_or_default();
        let rb = installed_ranges(b, &p.name).unwrap_or_default();
        let (sa, sb): (std::collections::BTreeSet<_>, std::collections::BTreeSet<_>) =
            (ra.into_iter().collect(), rb.into_iter().collect());
        if sa != sb {
            return Err(format!("policy {:?}: {sa:?} vs {sb:?}", p.name));
        }
    }
    Ok(())
}

fn run_history(h: &E2eHistory, c03: bool, runner: crate::fullrun::Runner, obs: &mut Obs) {
    let names: Vec<String> = h
        .history
        .names
        .iter()
        .map(|i| NAME_POOL[*i as usize % NAME_POOL.len()].to_string())
        .collect();
    let fake = Arc::new(Mutex::new(FakeJunos::new("bgpfu")));
    {
        let seed = crate::props::c01::seed_config(&h.history, &names);
        if !seed.policies.is_empty() {
            obs.class("starts-from-a-preinstalled-state");
            fake.lock().unwrap().ephemeral = seed;
        }
        if let Some(style) = &h.history.junos_style {
            obs.class("router-replies-in-a-generated-style");
            fake.lock().unwrap().style = Some(style.clone());
        }
    }
    for r in 0..h.history.runs.len() {
        let (stmts, db, exprs) = world(h, r, &names);
        let down = h.irr_down.get(r).copied().unwrap_or(false);
        let irrd = match FakeIrrd::start(db.clone(), 0) {
            Ok(s) => s,
            Err(e) => {
                obs.fail("harness-sanity:fake-irrd", format!("{e}"));
                return;
            }
        };
        let before = {
            let mut f = fake.lock().unwrap();
            f.running = stmts.clone();
            f.loads.clear();
            f.log.clear();
            f.protocol_errors.clear();
            f.ephemeral.clone()
        };
        // port 1 on loopback: nothing listens there
        let port = if down { 1 } else { irrd.port };
        let result = crate::fullrun::agent_run(runner, &fake, ("127.0.0.1", port), "bgpfu");
        let (after, loads) = {
            let f = fake.lock().unwrap();
            (f.ephemeral.clone(), f.loads.clone())
        };
        obs.inner_evals += 1;
        obs.class(if down { "irr:unreachable" } else { "irr:up" });
        let run = &h.history.runs[r];
        if c03 {
            // ---- C03: IRR-side failures never touch a policy that is still marked
            let touched: std::collections::BTreeSet<String> = loads
                .iter()
                .filter_map(|(_, _, o)| o.as_ref().ok())
                .flat_map(|o| o.touched.iter().cloned())
                .collect();
            for (i, p) in run.policies.iter().enumerate() {
                let Some(name) = names.get(i) else { continue };
                let marked = stmts.iter().any(|s| s.name == *name && s.marked());
                let annotation_bad = matches!(p.marking, Marking::MalformedAnnotation(_));
                let unobtainable = marked && (down || annotation_bad || (p.marking == Marking::Managed && p.eval_fails));
                if !unobtainable {
                    continue;
                }
                let why = if annotation_bad {
                    "annotation-cannot-be-parsed"
                } else if down {
                    "irr-unreachable"
                } else {
                    match h.fail_modes.get(r) {
                        Some(FailMode::NotUnique) => "irr-error-E",
                        Some(FailMode::OtherError) => "irr-error-F",
                        Some(FailMode::AsPathRegexp) => "as-path-regexp",
                        Some(FailMode::AttributeMatch) => "attribute-match",
                        _ => "unknown-as-set",
                    }
                };
                obs.class(format!("unobtainable:{why}"));
                if before.get(name).is_some_and(|p| !p.terms.is_empty()) {
                    obs.nontrivial = true;
                }
                if touched.contains(name) {
                    obs.fail(
                        format!("managed-policy-touched-although-data-unobtainable:{why}"),
                        format!("run {r}: policy {name:?} ({why}) was named by a payload; before {:?}", before.get(name)),
                    );
                }
                if before.get(name) != after.get(name) {
                    obs.fail(
                        format!("managed-policy-changed-although-data-unobtainable:{why}"),
                        format!("run {r}: policy {name:?} ({why}) changed from {:?} to {:?}", before.get(name), after.get(name)),
                    );
                }
            }
            if down && !result.is_ok() && before != after {
                obs.fail("database-changed-although-irr-unreachable", format!("run {r}"));
            }
            continue;
        }
        // ---- C01: convergence
        if down {
            // the run is expected to fail and to change nothing; convergence is judged on the
            // runs that report success
            if result.is_ok() {
                obs.class("run-succeeds-with-irr-down");
            }
            continue;
        }
        match &result {
            RunResult::Ok => {}
            RunResult::Stuck => {
                obs.fail("run-never-completes", format!("run {r}"));
                return;
            }
            RunResult::Err(e) => {
                obs.fail(
                    "run-fails-on-own-state",
                    format!("run {r} failed without an injected fault: {e}; installed before: {before:?}"),
                );
                return;
            }
        }
        let fe = BTreeMap::new();
        let oracle = Oracle::new(&db, &fe);
        let mut managed: std::collections::BTreeSet<&str> = Default::default();
        for (i, p) in run.policies.iter().enumerate() {
            let Some(name) = names.get(i) else { continue };
            if p.marking == Marking::Managed {
                managed.insert(name);
            }
            let Some(expr) = exprs.get(i).and_then(Option::as_ref) else { continue };
            match installed_ranges(&after, name) {
                None => obs.fail(
                    "evaluated-policy-not-installed",
                    format!("run {r}: {name:?} evaluated but not installed; installed {:?}", after.policies.iter().map(|p| &p.name).collect::<Vec<_>>()),
                ),
                Some(ranges) => {
                    if before.get(name).map(|p| installed_ranges(&before, &p.name)) != Some(Some(ranges.clone())) {
                        obs.nontrivial = true;
                    }
                    if let Err((pfx, want)) = compare(&oracle, expr, &ranges, &[]) {
                        obs.fail(
                            "installed-set-differs-from-evaluated-set",
                            format!(
                                "run {r}: policy {name:?}: route {} is {} the RPSL set of {} but {} the installed ranges {:?}",
                                pfx.to_string(),
                                if want { "in" } else { "not in" },
                                expr.text(),
                                if want { "not in" } else { "in" },
                                ranges.iter().map(PRange::to_plain).collect::<Vec<_>>()
                            ),
                        );
                    }
                    if after.get(name).and_then(|p| p.default_action.clone()).as_deref() != Some("reject") {
                        obs.fail("installed-policy-without-default-reject", format!("run {r}: {name:?}"));
                    }
                }
            }
        }
        for pol in &after.policies {
            let malformed = run.policies.iter().enumerate().any(|(i, p)| {
                names.get(i) == Some(&pol.name) && matches!(p.marking, Marking::MalformedAnnotation(_))
            });
            if !managed.contains(pol.name.as_str()) && !malformed {
                obs.fail(
                    "unmanaged-policy-installed",
                    format!("run {r}: {:?} is installed but not managed ({managed:?})", pol.name),
                );
            }
        }
        // read-back through the agent's own reader
        match drive(bgpfu_junos_agent::verif::fetch_installed(
            fake_junos::factory(&fake),
            "bgpfu",
        )) {
            Some(Ok(_)) => {}
            Some(Err(e)) => obs.fail("own-state-unreadable", format!("run {r}: {e:#}; state {after:?}")),
            None => obs.fail("read-back-stuck", format!("run {r}")),
        }
        // idempotence
        let again = crate::fullrun::agent_run(runner, &fake, ("127.0.0.1", irrd.port), "bgpfu");
        let after2 = fake.lock().unwrap().ephemeral.clone();
        match again {
            RunResult::Ok => {
                if let Err(e) = semantic_equal(&db, &after, &after2) {
                    obs.fail(
                        "second-run-with-unchanged-inputs-changes-the-configuration",
                        format!("run {r}: {e}"),
                    );
                }
            }
            other => obs.fail(
                "second-run-with-unchanged-inputs-fails",
                format!("run {r}: {other:?}"),
            ),
        }
    }
}

fn e2e_history_strategy(max_runs: usize) -> BoxedStrategy<E2eHistory> {
    (
        crate::props::c01::history_strategy(max_runs),
        prop::collection::vec(
            prop_oneof![
                Just(FailMode::UnknownAsSet),
                Just(FailMode::NotUnique),
                Just(FailMode::OtherError),
                Just(FailMode::AsPathRegexp),
                Just(FailMode::AttributeMatch)
            ],
            max_runs,
        ),
        prop::collection::vec(prop::bool::weighted(0.12), max_runs),
    )
        .prop_map(|(history, fail_modes, irr_down)| E2eHistory {
            history,
            fail_modes,
            irr_down,
        })
        .boxed()
}

pub struct C01Full(pub crate::fullrun::Runner);

impl Prop for C01Full {
    type Case = E2eHistory;
    fn name(&self) -> &'static str {
        match self.0 {
            crate::fullrun::Runner::Hook => "full-run-histories",
            crate::fullrun::Runner::Binary => "binary-histories",
        }
    }
    fn rule(&self) -> String {
        "histories of 1..4 real agent runs (Updater::run on a multi-thread runtime: real session, \
         pipelined get-configs, real RpslEvaluator over TCP against a fake IRRd serving one \
         route-set per policy, compare, pipelined loads, commit, close) against the fake Junos; \
         failing evaluations are unknown as-sets or E/F answers; occasionally the IRR is \
         unreachable. Oracle after each successful run: every evaluated policy's installed ranges \
         denote exactly the RPSL set (exact comparison by class representatives, so aggregation \
         by the prefix-set library is not mistaken for a difference), nothing unmanaged is \
         installed, the agent reads its own state back, a repeated run changes nothing. \
         Non-trivial = a run that changes at least one managed policy; distinct by history"
            .into()
    }
    fn cases(&self, tier: Tier) -> u32 {
        match self.0 {
            crate::fullrun::Runner::Hook => tier.pick(1_500, 60_000),
            crate::fullrun::Runner::Binary => tier.pick(60, 3_000),
        }
    }
    fn strategy(&self, tier: Tier) -> BoxedStrategy<E2eHistory> {
        e2e_history_strategy(tier.pick(3, 5))
    }
    fn check(&self, h: &E2eHistory) -> Obs {
        let mut obs = Obs::default();
        run_history(h, false, self.0, &mut obs);
        obs
    }
}

pub struct C03Full;

impl Prop for C03Full {
    type Case = E2eHistory;
    fn name(&self) -> &'static str {
        "full-run-irr-failures"
    }
    fn rule(&self) -> String {
        "the histories of part full-run-histories; the prefix data of a generated subset of managed \
         policies cannot be obtained because the as-set is unknown to the IRR (D), the IRR answers \
         the set query with E or F, the IRR cannot be reached at all, or the annotation is \
         malformed. Oracle: no payload names such a policy and its installed state is unchanged. \
         Non-trivial = such a policy was installed with at least one term; distinct by history"
            .into()
    }
    fn cases(&self, tier: Tier) -> u32 {
        tier.pick(1_500, 60_000)
    }
    fn strategy(&self, tier: Tier) -> BoxedStrategy<E2eHistory> {
        e2e_history_strategy(tier.pick(4, 6))
    }
    fn check(&self, h: &E2eHistory) -> Obs {
        let mut obs = Obs::default();
        run_history(h, true, crate::fullrun::Runner::Hook, &mut obs);
        obs
    }
}

// ------------------------------------------------------------------ C11: what the agent installs

pub struct C11Agent;

impl Prop for C11Agent {
    type Case = c11::Case;
    fn name(&self) -> &'static str {
        "agent-installs"
    }
    fn rule(&self) -> String {
        "the databases and expressions of part `evaluator` (plus an as-set the database does not \
         know); one to three managed policies each carry an expression, the real agent runs once (in half of the cases after a first run against an older state of the IRR in which every AS has half of its routes) against fake IRRd + fake Junos, and the route-filters \
         installed in the fake Junos must denote exactly the RPSL set (IPv4 / IPv6 partition \
         included); when the evaluation has to fail nothing may be installed. Non-trivial = a \
         non-empty set was installed; distinct by (database, expression)"
            .into()
    }
    fn cases(&self, tier: Tier) -> u32 {
        tier.pick(4_000, 200_000)
    }
    fn strategy(&self, _tier: Tier) -> BoxedStrategy<c11::Case> {
        c11::db_strategy(false)
            .prop_flat_map(|spec| {
                let (mut a, r, f) = c11::names_of(&spec);
                a.push("AS-UNKNOWN".into());
                (
                    Just(spec),
                    prop::collection::vec(c11::expr_strategy(a, r, f), 1..4),
                )
            })
            .prop_map(|(spec, exprs)| c11::Case { spec, exprs })
            .boxed()
    }
    fn check(&self, case: &c11::Case) -> Obs {
        let mut obs = Obs::default();
        // one managed policy per expression of the case, all evaluated in the same run (the
        // agent uses one evaluator and one IRR connection for all of them)
        let exprs: Vec<&crate::irr::Expr> = case.exprs.iter().take(3).collect();
        obs.class(format!("policies-in-the-run:{}", exprs.len()));
        let irrd = match FakeIrrd::start(case.spec.db.clone(), case.spec.chunk as usize) {
            Ok(s) => s,
            Err(e) => {
                obs.fail("harness-sanity:fake-irrd", format!("{e}"));
                return obs;
            }
        };
        let fake = Arc::new(Mutex::new(FakeJunos::new("bgpfu")));
        fake.lock().unwrap().running = exprs
            .iter()
            .enumerate()
            .map(|(i, e)| Stmt::managed(&format!("fltr-x{i}"), &e.text()))
            .collect();
        // in half of the cases a first run against an older state of the IRR (every AS with only
        // the first half of its routes) has already installed something: "installs exactly that
        // set" must hold for an update as well as for a first installation
        if case.spec.chunk % 2 == 1 || case.exprs.len() == 2 {
            let mut older = case.spec.db.clone();
            for (v4, v6) in older.routes.values_mut() {
                v4.truncate(v4.len() / 2);
                v6.truncate(v6.len() / 2);
            }
            if let Ok(old_irrd) = FakeIrrd::start(older, 0) {
                let first = full_run(&fake, ("127.0.0.1", old_irrd.port), "bgpfu");
                obs.class(if first.is_ok() {
                    "second-run-after-an-older-irr-state"
                } else {
                    "second-run-after-a-failed-first-run"
                });
            }
        }
        let result = full_run(&fake, ("127.0.0.1", irrd.port), "bgpfu");
        let after = fake.lock().unwrap().ephemeral.clone();
        if !result.is_ok() {
            obs.fail(
                "run-fails",
                format!(
                    "the run failed ({result:?}) for expressions {:?}",
                    exprs.iter().map(|e| e.text()).collect::<Vec<_>>()
                ),
            );
            return obs;
        }
        let oracle = Oracle::new(&case.spec.db, &case.spec.filter_exprs);
        for (i, expr) in exprs.iter().enumerate() {
        let expr: &crate::irr::Expr = expr;
        let name = format!("fltr-x{i}");
        let name = name.as_str();
        match oracle.expect(expr) {
            Expect::Fails(why) => {
                obs.class("evaluation-must-fail");
                if after.get(name).is_some() {
                    obs.fail(
                        "installed-although-evaluation-must-fail",
                        format!("{} : {why}, yet a policy was installed: {:?}", expr.text(), after.get(name)),
                    );
                }
            }
            Expect::Set => match installed_ranges(&after, name) {
                None => obs.fail(
                    "evaluated-policy-not-installed",
                    format!("{} evaluated but nothing installed", expr.text()),
                ),
                Some(ranges) => {
                    obs.nontrivial = !ranges.is_empty();
                    // the family of every installed entry must match its term
                    if let Some(pol) = after.get(name) {
                        for t in &pol.terms {
                            for e in &t.filters {
                                let v6 = e.0.contains(':');
                                if (t.name == "inet6") != v6 {
                                    obs.fail(
                                        "entry-in-the-wrong-address-family-term",
                                        format!("{e:?} in term {}", t.name),
                                    );
                                }
                            }
                        }
                    }
                    if let Err((pfx, want)) = compare(&oracle, expr, &ranges, &[]) {
                        let alt = Oracle::new(&case.spec.db, &case.spec.filter_exprs)
                            .without_route_set_members_with_operator();
                        let sig = if compare(&alt, expr, &ranges, &[]).is_ok() {
                            "prefix-missing:route-set-member-with-range-operator"
                        } else if want {
                            "installed-set-misses-a-prefix"
                        } else {
                            "installed-set-has-a-prefix-in-excess"
                        };
                        obs.fail(
                            sig,
                            format!(
                                "{} : route {} is {} the RPSL set but {} the installed ranges {:?}; db {:?}",
                                expr.text(),
                                pfx.to_string(),
                                if want { "in" } else { "not in" },
                                if want { "not in" } else { "in" },
                                ranges.iter().map(PRange::to_plain).collect::<Vec<_>>(),
                                case.spec.db
                            ),
                        );
                    }
                }
            },
        }
        }
        obs
    }
}
