//! C11 — filter-expression evaluation equals RPSL set semantics over the IRR data, and
//! C17 — evaluations are independent of what was evaluated before on the connection.
//!
//! Engine G: the real `RpslEvaluator` (public API of bgpfu-lib) against a fake IRRd on loopback
//! serving a generated database; the oracle is a denotational evaluator written for the harness,
//! compared exactly (class representatives).

use std::collections::{BTreeMap, BTreeSet};

use ip::traits::PrefixSet as _;
use proptest::prelude::*;
use rpsl::expr::MpFilterExpr;
use serde::{Deserialize, Serialize};

use crate::{
    core::{catch, pick_idx, Obs, Prop, PropPart, Property, Tier},
    irr::{compare, parse_range_display, Answer, Db, Expect, Expr, FakeIrrd, Op, Oracle, RsMember},
    junos_model::PRange,
};

pub const V4: &[&str] = &[
    "10.0.0.0/8", "10.0.0.0/9", "10.128.0.0/9", "10.1.0.0/16", "10.1.2.0/24", "192.0.2.0/24",
    "192.0.2.128/25", "198.51.100.0/24", "203.0.113.0/24", "100.64.0.0/10", "0.0.0.0/0",
    "172.16.0.0/12",
];
pub const V6: &[&str] = &[
    "2001:db8::/32", "2001:db8:1::/48", "2001:db8:1:2::/64", "2c0f:fa90::/32", "2001:db8:ffff::/48",
    "::/0", "fc00::/7", "2600::/12",
];
const AS_SET_NAMES: &[&str] = &["AS-A", "AS-B", "AS-C", "AS65000:AS-CUST", "AS-EMPTY"];
const RS_NAMES: &[&str] = &["RS-A", "RS-B", "AS65001:RS-X"];
const FLTR_NAMES: &[&str] = &["FLTR-A", "FLTR-B"];

#[derive(Debug, Clone, Serialize, Deserialize)]
pub struct DbSpec {
    pub db: Db,
    /// filter-set expressions in the harness's own AST (what the served text was printed from)
    pub filter_exprs: BTreeMap<String, Expr>,
    /// write responses in chunks of this many bytes (0 = whole)
    pub chunk: u8,
}

#[derive(Debug, Clone, Serialize, Deserialize)]
pub struct Case {
    pub spec: DbSpec,
    pub exprs: Vec<Expr>,
}

fn op_strategy(max: u8) -> impl Strategy<Value = Op> {
    prop_oneof![
        5 => Just(Op::None),
        1 => Just(Op::Less),
        1 => Just(Op::LessEq),
        1 => (0..=max).prop_map(Op::Exact),
        2 => (0..=max, 0..=max).prop_map(|(a, b)| Op::Range(a.min(b), a.max(b))),
    ]
}

/// operator valid for a concrete prefix of length `len` (n >= len)
fn op_for_prefix(len: u8, max: u8) -> impl Strategy<Value = Op> {
    prop_oneof![
        5 => Just(Op::None),
        1 => Just(Op::Less),
        1 => Just(Op::LessEq),
        1 => (len..=max).prop_map(Op::Exact),
        2 => (len..=max, len..=max).prop_map(|(a, b)| Op::Range(a.min(b), a.max(b))),
    ]
}

fn prefix_with_op() -> impl Strategy<Value = (String, Op)> {
    any::<u16>().prop_flat_map(|i| {
        let all: Vec<&str> = V4.iter().chain(V6.iter()).copied().collect();
        let p = all[pick_idx(i, all.len())];
        let len: u8 = p.rsplit('/').next().unwrap().parse().unwrap();
        let max = if p.contains(':') { 128 } else { 32 };
        (Just(p.to_string()), op_for_prefix(len, max))
    })
}

fn atom(
    as_sets: Vec<String>,
    route_sets: Vec<String>,
    filter_sets: Vec<String>,
    with_ops: bool,
) -> BoxedStrategy<Expr> {
    let op = move || {
        if with_ops {
            // bounds that are both above 32 apply to IPv6 members only: the IPv4 members of the
            // set drop out (no IPv4 prefix is that long). A range that straddles 32 (^0-33) is
            // not generated: RFC 2622 / RFC 4012 give it no meaning for the IPv4 members
            prop_oneof![
                6 => op_strategy(32),
                1 => (33u8..=128).prop_map(Op::Exact),
                1 => (33u8..=128, 33u8..=128).prop_map(|(a, b)| Op::Range(a.min(b), a.max(b))),
            ]
            .boxed()
        } else {
            Just(Op::None).boxed()
        }
    };
    let mut v: Vec<(u32, BoxedStrategy<Expr>)> = vec![
        (1, Just(Expr::Any).boxed()),
        (4, (65000u32..65010, op()).prop_map(|(n, o)| Expr::As(n, o)).boxed()),
        (
            4,
            (prop::collection::vec(prefix_with_op(), 0..4), op())
                .prop_map(|(ps, o)| Expr::Literal(ps, o))
                .boxed(),
        ),
    ];
    if !as_sets.is_empty() {
        let names = as_sets.clone();
        v.push((
            6,
            (any::<u16>(), op())
                .prop_map(move |(i, o)| Expr::AsSet(names[pick_idx(i, names.len())].clone(), o))
                .boxed(),
        ));
    }
    if !route_sets.is_empty() {
        let names = route_sets.clone();
        v.push((
            4,
            (any::<u16>(), op())
                .prop_map(move |(i, o)| Expr::RouteSet(names[pick_idx(i, names.len())].clone(), o))
                .boxed(),
        ));
    }
    if !filter_sets.is_empty() {
        let names = filter_sets.clone();
        v.push((
            2,
            any::<u16>()
                .prop_map(move |i| Expr::FilterSet(names[pick_idx(i, names.len())].clone()))
                .boxed(),
        ));
    }
    proptest::strategy::Union::new_weighted(v).boxed()
}

pub fn expr_strategy(
    as_sets: Vec<String>,
    route_sets: Vec<String>,
    filter_sets: Vec<String>,
) -> BoxedStrategy<Expr> {
    atom(as_sets, route_sets, filter_sets, true)
        .prop_recursive(3, 12, 2, |inner| {
            prop_oneof![
                3 => (inner.clone(), inner.clone()).prop_map(|(a, b)| Expr::And(Box::new(a), Box::new(b))),
                3 => (inner.clone(), inner.clone()).prop_map(|(a, b)| Expr::Or(Box::new(a), Box::new(b))),
                // NOT only over literal sets of short prefixes: the prefix-set dependency computes a
                // complement in time exponential in the prefix length (NOT {192.0.2.0/24} takes 15 s,
                // NOT {2001:db8::/32} does not finish), see DESIGN.md section 4
                1 => short_literal().prop_map(|a| Expr::Not(Box::new(a))),
            ]
        })
        .boxed()
}

const SHORT: &[&str] = &[
    "0.0.0.0/0", "10.0.0.0/8", "10.0.0.0/9", "100.64.0.0/10", "172.16.0.0/12", "::/0", "fc00::/7",
    "2600::/12",
];

fn short_literal() -> impl Strategy<Value = Expr> {
    prop::collection::vec(
        any::<u16>().prop_flat_map(|i| {
            let p = SHORT[pick_idx(i, SHORT.len())];
            let len: u8 = p.rsplit('/').next().unwrap().parse().unwrap();
            let max = if p.contains(':') { 128 } else { 32 };
            (Just(p.to_string()), op_for_prefix(len, max))
        }),
        1..3,
    )
    .prop_map(|ps| Expr::Literal(ps, Op::None))
}

fn subset(pool: &'static [&'static str]) -> impl Strategy<Value = Vec<String>> {
    any::<u16>().prop_map(move |m| {
        pool.iter()
            .enumerate()
            .filter(|(i, _)| m & (1 << i) != 0)
            .map(|(_, p)| (*p).to_string())
            .collect()
    })
}

pub fn db_strategy(with_errors: bool) -> BoxedStrategy<DbSpec> {
    let routes = prop::collection::btree_map(
        65000u32..65010,
        (
            prop_oneof![1 => Just(Vec::new()), 3 => subset(V4)],
            prop_oneof![1 => Just(Vec::new()), 3 => subset(V6)],
        ),
        2..8,
    );
    let as_member = prop_oneof![
        5 => (65000u32..65012).prop_map(|n| format!("AS{n}")),
        3 => any::<u16>().prop_map(|i| AS_SET_NAMES[pick_idx(i, AS_SET_NAMES.len())].to_string()),
        1 => Just("AS-NOSUCH".to_string()),
    ];
    let as_sets = prop::collection::btree_map(
        any::<u16>().prop_map(|i| AS_SET_NAMES[pick_idx(i, AS_SET_NAMES.len())].to_string()),
        prop::collection::vec(as_member, 0..5),
        1..5,
    );
    let rs_member = prop_oneof![
        6 => prefix_with_op().prop_map(|(p, o)| RsMember::Prefix(p, o)),
        2 => any::<u16>().prop_map(|i| RsMember::Set(RS_NAMES[pick_idx(i, RS_NAMES.len())].to_string(), Op::None)),
        1 => Just(RsMember::Set("RS-NOSUCH".into(), Op::None)),
    ];
    let route_sets = prop::collection::btree_map(
        any::<u16>().prop_map(|i| RS_NAMES[pick_idx(i, RS_NAMES.len())].to_string()),
        prop::collection::vec(rs_member, 0..5),
        0..3,
    );
    (routes, as_sets, route_sets, any::<bool>(), 0u8..4)
        .prop_flat_map(move |(routes, as_sets, route_sets, empty_as_c, chunk)| {
            let an: Vec<String> = as_sets.keys().cloned().collect();
            let rn: Vec<String> = route_sets.keys().cloned().collect();
            // FLTR-A over plain names; FLTR-B may use FLTR-A (acyclic)
            let fa = expr_strategy(an.clone(), rn.clone(), vec![]);
            let fb = expr_strategy(an.clone(), rn.clone(), vec!["FLTR-A".into()]);
            let errors = if with_errors {
                prop::collection::btree_map(
                    prop_oneof![
                        any::<u16>().prop_map(|i| AS_SET_NAMES[pick_idx(i, AS_SET_NAMES.len())].to_string()),
                        any::<u16>().prop_map(|i| RS_NAMES[pick_idx(i, RS_NAMES.len())].to_string()),
                        (65000u32..65010, any::<bool>()).prop_map(|(n, v6)| format!("AS{n}/{}", if v6 { "6" } else { "g" })),
                        any::<u16>().prop_map(|i| FLTR_NAMES[pick_idx(i, FLTR_NAMES.len())].to_string()),
                    ],
                    prop_oneof![Just(Answer::NotFound), Just(Answer::NotUnique), Just(Answer::Other)],
                    0..4,
                )
                .boxed()
            } else {
                Just(BTreeMap::new()).boxed()
            };
            (
                Just((routes, as_sets, route_sets, empty_as_c, chunk)),
                prop::option::weighted(0.6, fa),
                prop::option::weighted(0.4, fb),
                any::<bool>(),
                errors,
            )
        })
        .prop_map(
            |((routes, as_sets, route_sets, empty_as_c, chunk), fa, fb, two_sources, errors)| {
                let mut filter_exprs = BTreeMap::new();
                let mut filter_sets = BTreeMap::new();
                if let Some(e) = fa {
                    let mut objs = vec![e.text()];
                    if two_sources {
                        objs.push(e.text());
                    }
                    filter_sets.insert("FLTR-A".to_string(), objs);
                    filter_exprs.insert("FLTR-A".to_string(), e);
                }
                if let Some(e) = fb {
                    filter_sets.insert("FLTR-B".to_string(), vec![e.text()]);
                    filter_exprs.insert("FLTR-B".to_string(), e);
                }
                DbSpec {
                    db: Db {
                        routes,
                        as_sets,
                        route_sets,
                        filter_sets,
                        errors,
                        empty_as_c,
                        epoch_errors: Vec::new(),
                        f_text: 0,
                        legacy_filter_sets: Default::default(),
                    },
                    filter_exprs,
                    chunk: if chunk == 3 { 7 } else { 0 },
                }
            },
        )
        .boxed()
}

pub fn names_of(spec: &DbSpec) -> (Vec<String>, Vec<String>, Vec<String>) {
    (
        spec.db.as_sets.keys().cloned().collect(),
        spec.db.route_sets.keys().cloned().collect(),
        spec.db.filter_sets.keys().cloned().collect(),
    )
}

#[derive(Debug, Clone, PartialEq, Eq)]
pub enum Evaluated {
    Set(Vec<PRange>),
    Failed(String),
    Panicked(String, String),
    Unparsable(String),
}

/// Evaluate `text` with the real evaluator.
pub fn eval_real(ev: &mut bgpfu::RpslEvaluator, text: &str) -> Evaluated {
    let expr: MpFilterExpr = match text.parse() {
        Ok(e) => e,
        Err(e) => return Evaluated::Unparsable(format!("{e}")),
    };
    match catch(|| ev.evaluate(expr)) {
        Err((loc, msg)) => Evaluated::Panicked(loc, msg),
        Ok(Err(e)) => Evaluated::Failed(format!("{e}")),
        Ok(Ok(set)) => {
            let mut out = Vec::new();
            for r in set.ranges() {
                let s = format!("{r}");
                match parse_range_display(&s) {
                    Some(r) => out.push(r),
                    None => return Evaluated::Failed(format!("harness: cannot parse range {s:?}")),
                }
            }
            Evaluated::Set(out)
        }
    }
}

/// Judge one evaluation against the oracle.
pub fn judge(
    spec: &DbSpec,
    expr: &Expr,
    got: &Evaluated,
    obs: &mut Obs,
    ctx: &str,
) -> bool {
    let oracle = Oracle::new(&spec.db, &spec.filter_exprs);
    match (oracle.expect(expr), got) {
        (_, Evaluated::Unparsable(e)) => {
            obs.fail(
                "harness-sanity:generated-expression-does-not-parse",
                format!("{ctx}: {} : {e}", expr.text()),
            );
            false
        }
        (_, Evaluated::Panicked(loc, msg)) => {
            obs.fail(
                format!("panic:{loc}"),
                format!("{ctx}: evaluating {} panicked at {loc}: {msg}", expr.text()),
            );
            false
        }
        (Expect::Fails(_), Evaluated::Failed(_)) => {
            obs.class("evaluation-fails-as-expected");
            true
        }
        (Expect::Fails(why), Evaluated::Set(s)) => {
            obs.fail(
                "evaluation-succeeds-although-an-as-set-is-unobtainable",
                format!("{ctx}: {} evaluated to {} ranges although {why}", expr.text(), s.len()),
            );
            false
        }
        (Expect::Set, Evaluated::Failed(e)) => {
            obs.fail(
                "evaluation-fails-unexpectedly",
                format!("{ctx}: {} failed: {e}; db {:?}", expr.text(), spec.db),
            );
            false
        }
        (Expect::Set, Evaluated::Set(ranges)) => match compare(&oracle, expr, ranges, &[]) {
            Ok(_n) => true,
            Err((witness, want)) => {
                // is the disagreement exactly explained by route-set members with a range
                // operator being dropped? (re-evaluate the oracle without them)
                let alt = Oracle::new(&spec.db, &spec.filter_exprs)
                    .without_route_set_members_with_operator();
                let rs_with_ops = compare(&alt, expr, ranges, &[]).is_ok();
                let sig = if rs_with_ops {
                    "prefix-missing:route-set-member-with-range-operator"
                } else if want {
                    "prefix-missing"
                } else {
                    "prefix-in-excess"
                };
                obs.fail(
                    sig,
                    format!(
                        "{ctx}: {} : prefix {} is {} the RPSL set but {} the evaluated ranges {:?}; db {:?}",
                        expr.text(),
                        witness.to_string(),
                        if want { "in" } else { "not in" },
                        if want { "not in" } else { "in" },
                        ranges.iter().map(PRange::to_plain).collect::<Vec<_>>(),
                        spec.db
                    ),
                );
                false
            }
        },
    }
}

pub struct C11;

impl Prop for C11 {
    type Case = Case;
    fn name(&self) -> &'static str {
        "evaluator"
    }
    fn rule(&self) -> String {
        "an IRR database (2..7 ASes with route/route6 subsets of nested, identical and disjoint \
         prefixes incl. none; as-sets with AS / as-set / unknown members, cycles, empty sets, \
         hierarchical names; route-sets with prefix members with and without range operators, \
         nested and cyclic references; acyclic filter-sets served once or from two sources; empty \
         answers as C or D; responses whole or in 7-byte TCP segments) served by a fake IRRd, and an \
         expression over its names (AND/OR/NOT, literal sets, every range operator on every atom). \
         The real RpslEvaluator's ranges are compared exactly (one representative per class of the \
         partition induced by all prefixes involved) with a denotational evaluator. Non-trivial = \
         the expression references a name of the database and the result is neither empty nor \
         everything; distinct by (database, expression)"
            .into()
    }
    fn cases(&self, tier: Tier) -> u32 {
        std::env::var("C11_CASES").ok().and_then(|v| v.parse().ok()).unwrap_or(tier.pick(20_000, 1_000_000))
    }
    fn strategy(&self, _tier: Tier) -> BoxedStrategy<Case> {
        db_strategy(false)
            .prop_flat_map(|spec| {
                let (a, r, f) = names_of(&spec);
                (Just(spec), expr_strategy(a, r, f))
            })
            .prop_map(|(spec, e)| Case {
                spec,
                exprs: vec![e],
            })
            .boxed()
    }
    fn check(&self, case: &Case) -> Obs {
        let mut obs = Obs::default();
        let server = match FakeIrrd::start(case.spec.db.clone(), case.spec.chunk as usize) {
            Ok(s) => s,
            Err(e) => {
                obs.fail("harness-sanity:fake-irrd", format!("{e}"));
                return obs;
            }
        };
        let mut ev = match bgpfu::RpslEvaluator::new("127.0.0.1", server.port) {
            Ok(e) => e,
            Err(e) => {
                obs.fail("harness-sanity:connect", format!("{e}"));
                return obs;
            }
        };
        for expr in &case.exprs {
            if std::env::var_os("C11_TRACE").is_some() {
                eprintln!("C11 evaluating: {}", expr.text());
            }
            let got = eval_real(&mut ev, &expr.text());
            let mut names = Vec::new();
            expr.names(&mut names);
            match &got {
                Evaluated::Set(r) => {
                    obs.class(if r.is_empty() { "result:empty" } else { "result:ranges" });
                    let everything = r.iter().any(|x| x.base.len == 0 && x.lo == 0 && x.hi == x.base.max_len());
                    obs.nontrivial = !names.is_empty() && !r.is_empty() && !everything;
                }
                Evaluated::Failed(_) => obs.class("result:error"),
                _ => {}
            }
            judge(&case.spec, expr, &got, &mut obs, "evaluate");
            // the server must have been asked for both address families of every AS that a
            // members query returned
            if matches!(got, Evaluated::Set(_)) {
                let log = server.queries();
                for q in &log {
                    let Some(arg) = q.strip_prefix("!i") else { continue };
                    let n = arg.strip_suffix(",1").unwrap_or(arg).to_ascii_uppercase();
                    if case.spec.db.errors.contains_key(&n) {
                        continue;
                    }
                    if let Some(members) = case.spec.db.as_set_members(&n) {
                        for m in members {
                            for c in ["!g", "!6"] {
                                if !log.iter().any(|q| q.eq_ignore_ascii_case(&format!("{c}AS{m}"))) {
                                    obs.fail(
                                        format!("missing-query:{c}"),
                                        format!("the members query for {n} returned AS{m} but {c}AS{m} was never sent; queries {log:?}"),
                                    );
                                }
                            }
                        }
                    }
                }
            }
        }
        drop(ev);
        obs
    }
    fn assumptions(&self) -> Vec<String> {
        vec![
            "IRR server behaviour stays inside the IRRd query protocol (A/C/D/E/F framing)".into(),
            "an as-set whose members query is answered with an error makes the evaluation fail; an errored or empty per-AS route query contributes nothing; unknown route-sets and filter-sets evaluate to the empty set (the library's documented design)".into(),
            "filter-set references are acyclic".into(),
            "range operators are defined denotationally per RFC 2622 section 2 (all worked examples are unit tests of the oracle)".into(),
        ]
    }
}

// ------------------------------------------------------------------ C17

/// the fake IRRd's error keys for the queries an expression makes: set names, and `AS<n>/?` for
/// the route queries of the AS numbers it names directly or through its as-sets
fn queried_keys(e: &Expr, db: &Db, out: &mut Vec<String>) {
    match e {
        Expr::As(n, _) => out.push(format!("AS{n}/?")),
        Expr::AsSet(name, _) => {
            out.push(name.to_ascii_uppercase());
            if let Some(members) = db.as_set_members(name) {
                out.extend(members.iter().map(|n| format!("AS{n}/?")));
            }
        }
        Expr::RouteSet(name, _) => out.push(name.to_ascii_uppercase()),
        Expr::FilterSet(name) => out.push(name.to_ascii_uppercase()),
        Expr::And(a, b) | Expr::Or(a, b) => {
            queried_keys(a, db, out);
            queried_keys(b, db, out);
        }
        Expr::Not(a) => queried_keys(a, db, out),
        Expr::Any | Expr::Literal(..) => {}
    }
}

pub struct C17;

impl Prop for C17 {
    type Case = Case;
    fn name(&self) -> &'static str {
        "sequences"
    }
    fn rule(&self) -> String {
        "sequences of 2..8 expressions evaluated on ONE RpslEvaluator against a database in which \
         generated keys always answer with D, E or F (so a result is a function of database and \
         expression) and filter-sets are served from two sources (the resolver stops reading at the \
         first match), further errors are injected for one query of one member of the sequence (at random, and aimed at a key that member really queries; F answers may carry a long non-ASCII text); each result must equal the result of the same expression on a fresh \
         evaluator (both failing, or equal sets); the evaluator must stay usable after a failure. \
         Non-trivial = a failed evaluation, or one that used a filter-set, is followed by a \
         successful one; distinct by (database, sequence)"
            .into()
    }
    fn cases(&self, tier: Tier) -> u32 {
        tier.pick(5_000, 300_000)
    }
    fn strategy(&self, _tier: Tier) -> BoxedStrategy<Case> {
        db_strategy(true)
            .prop_flat_map(|spec| {
                let (mut a, r, f) = names_of(&spec);
                a.push("AS-UNKNOWN".into());
                let keys = prop_oneof![
                    1 => any::<u16>().prop_map(|i| AS_SET_NAMES[pick_idx(i, AS_SET_NAMES.len())].to_string()),
                    1 => any::<u16>().prop_map(|i| RS_NAMES[pick_idx(i, RS_NAMES.len())].to_string()),
                    1 => (65000u32..65010, any::<bool>()).prop_map(|(n, v6)| format!("AS{n}/{}", if v6 { "6" } else { "g" })),
                    2 => any::<u16>().prop_map(|i| FLTR_NAMES[pick_idx(i, FLTR_NAMES.len())].to_string()),
                ];
                // mostly short sequences; sometimes a long one that keeps referring to the
                // filter-sets (known or not), so that whatever an evaluator accumulates over its
                // life time (counters, caches, budgets) gets a chance to matter
                let f2 = if f.is_empty() { vec!["FLTR-NOSUCH".to_string()] } else { f.clone() };
                let fs_only = any::<u16>()
                    .prop_map(move |i| Expr::FilterSet(f2[pick_idx(i, f2.len())].clone()));
                let general = expr_strategy(a, r, f);
                let exprs = prop_oneof![
                    6 => prop::collection::vec(general.clone(), 2..8),
                    1 => prop::collection::vec(prop_oneof![1 => general, 2 => fs_only.boxed()], 20..45),
                ];
                (
                    Just(spec),
                    exprs,
                    // errors injected for one query of one member of the sequence
                    prop::collection::vec(
                        (
                            0u8..8,
                            keys,
                            prop_oneof![Just(Answer::NotFound), Just(Answer::NotUnique), Just(Answer::Other)],
                        ),
                        0..4,
                    ),
                    // the same, aimed: (member, which of the things that member names, address
                    // family, answer) - an error for a query that member really makes
                    prop::collection::vec(
                        (
                            any::<u16>(),
                            any::<u16>(),
                            any::<bool>(),
                            prop_oneof![1 => Just(Answer::NotFound), 1 => Just(Answer::NotUnique), 3 => Just(Answer::Other)],
                        ),
                        0..3,
                    ),
                    prop_oneof![2 => Just(0u8), 1 => 1u8..9],
                )
            })
            .prop_map(|(mut spec, exprs, mut epoch_errors, aimed, f_text)| {
                spec.db.f_text = f_text;
                for (m, a, v6, answer) in aimed {
                    let e = pick_idx(m, exprs.len().min(8));
                    let mut keys = Vec::new();
                    queried_keys(&exprs[e], &spec.db, &mut keys);
                    if keys.is_empty() {
                        continue;
                    }
                    let key = keys[pick_idx(a, keys.len())].clone();
                    let key = match key.strip_suffix("/?") {
                        Some(asn) => format!("{asn}/{}", if v6 { "6" } else { "g" }),
                        None => key,
                    };
                    epoch_errors.push((e as u8, key, answer));
                }
                spec.db.epoch_errors = epoch_errors;
                Case { spec, exprs }
            })
            .boxed()
    }
    fn check(&self, case: &Case) -> Obs {
        let mut obs = Obs::default();
        let server = match FakeIrrd::start(case.spec.db.clone(), case.spec.chunk as usize) {
            Ok(s) => s,
            Err(e) => {
                obs.fail("harness-sanity:fake-irrd", format!("{e}"));
                return obs;
            }
        };
        let mut shared = match bgpfu::RpslEvaluator::new("127.0.0.1", server.port) {
            Ok(e) => e,
            Err(e) => {
                obs.fail("harness-sanity:connect", format!("{e}"));
                return obs;
            }
        };
        let mut prev_interesting = false;
        if case.exprs.len() >= 20 {
            obs.class("long-sequence(20..44 evaluations on one evaluator)");
        }
        for (i, expr) in case.exprs.iter().enumerate() {
            let text = expr.text();
            // the errors injected for this member apply to its evaluation on the shared
            // evaluator and on the fresh one alike
            server.set_epoch(i);
            if case.spec.db.epoch_errors.iter().any(|(e, _, _)| *e as usize == i) {
                obs.class("member-with-an-error-injected-for-it-alone");
            }
            let on_shared = eval_real(&mut shared, &text);
            let fresh = match bgpfu::RpslEvaluator::new("127.0.0.1", server.port) {
                Ok(mut e) => eval_real(&mut e, &text),
                Err(e) => {
                    obs.fail("harness-sanity:connect", format!("{e}"));
                    return obs;
                }
            };
            let same = match (&on_shared, &fresh) {
                (Evaluated::Set(a), Evaluated::Set(b)) => {
                    let (sa, sb): (BTreeSet<_>, BTreeSet<_>) =
                        (a.iter().copied().collect(), b.iter().copied().collect());
                    sa == sb
                }
                (Evaluated::Failed(_), Evaluated::Failed(_)) => true,
                (Evaluated::Panicked(a, _), Evaluated::Panicked(b, _)) => a == b,
                _ => false,
            };
            let ok_now = matches!(on_shared, Evaluated::Set(_));
            if prev_interesting && ok_now {
                obs.nontrivial = true;
            }
            let mut names = Vec::new();
            expr.names(&mut names);
            prev_interesting = !ok_now || names.iter().any(|n| n.starts_with("FLTR"));
            if !same {
                obs.fail(
                    "result-depends-on-earlier-evaluations",
                    format!(
                        "expression {i} ({text}) evaluates to {on_shared:?} after {:?} on the same connection, but to {fresh:?} on a fresh one; db {:?}",
                        case.exprs[..i].iter().map(Expr::text).collect::<Vec<_>>(),
                        case.spec.db
                    ),
                );
                return obs;
            }
            // (agreement with the RPSL oracle is C11's subject, panics on unsupported constructs
            // C15's; here only independence from the history)
        }
        obs
    }
    fn assumptions(&self) -> Vec<String> {
        C11.assumptions()
    }
}

pub fn property_c11() -> Property {
    Property {
        id: "C11",
        level: "exploration",
        parts: vec![
            Box::new(PropPart(C11)),
            Box::new(PropPart(crate::props::e2e::C11Agent)),
            Box::new(PropPart(crate::props::bin_parts::C11Cli)),
        ],
    }
}

pub fn property_c17() -> Property {
    Property {
        id: "C17",
        level: "exploration",
        parts: vec![Box::new(PropPart(C17))],
    }
}
