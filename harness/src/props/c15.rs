//! C15 — one unevaluable policy does not prevent the others from being updated, plus the
//! end-to-end (engine B) parts of C01 / C03 / C11: the agent's real run with the real evaluator
//! against fake IRRd + fake Junos.

use std::{
    collections::BTreeMap,
    sync::{Arc, Mutex},
};

use proptest::prelude::*;
use serde::{Deserialize, Serialize};

use crate::{
    core::{Obs, Prop, PropPart, Property, Tier},
    fake_junos::FakeJunos,
    fullrun::RunResult,
    irr::{compare, Answer, Db, Expr, FakeIrrd, Op, Oracle},
    junos_model::{accept_entries, Config, PRange},
    props::c04::scenario,
    running::{Comment, Stmt},
};

#[derive(Debug, Clone, PartialEq, Eq, Serialize, Deserialize)]
pub enum Kind {
    /// evaluable: route-set RS-P<i> with these pool subsets
    Good(u16, u16),
    UnknownAsSet,
    /// the as-set exists but the IRR answers its members query with E / F
    IrrError(bool),
    UnknownRouteSet,
    UnknownFilterSet,
    PeerAs,
    AsPathRegex,
    Community,
    /// `RS-P<i> AND <AS1>`
    GoodAndRegex(u16, u16),
    /// evaluable through a filter-set: `FLTR-G<i>`, defined as `RS-P<i>`
    GoodViaFilterSet(u16, u16),
    /// a chain of 1..10 filter-sets that ends in an unknown as-set: the evaluation resolves all of
    /// them and then fails
    FilterSetChainToUnknown(u8),
    /// evaluable: a route-set whose *name* extends the text of another policy's expression
    /// (`RS-P<i>-AS-NOSUCH<j>`): related names, unrelated objects
    GoodNamedAfter(u16, u16, u8),
    /// an as-set whose members' route queries are answered with `F <text>` (text form k of
    /// `Db::f_text`): the evaluator logs and skips such answers, whatever the result is it is
    /// this policy's own business
    RouteQueryErrors(u8),
    /// a filter-set whose IRR object has only the legacy `filter:` attribute, which the evaluator
    /// does not read
    LegacyFilterSet,
}

impl Kind {
    pub fn evaluable(&self) -> bool {
        matches!(self, Kind::Good(..) | Kind::GoodViaFilterSet(..) | Kind::GoodNamedAfter(..))
    }
    fn label(&self) -> &'static str {
        match self {
            Kind::Good(..) => "good",
            Kind::UnknownAsSet => "unknown-as-set",
            Kind::IrrError(_) => "irr-error-response",
            Kind::UnknownRouteSet => "unknown-route-set",
            Kind::UnknownFilterSet => "unknown-filter-set",
            Kind::PeerAs => "PeerAS",
            Kind::AsPathRegex => "as-path-regexp",
            Kind::Community => "attribute-match",
            Kind::GoodAndRegex(..) => "set-AND-as-path-regexp",
            Kind::GoodViaFilterSet(..) => "good-via-filter-set",
            Kind::FilterSetChainToUnknown(_) => "filter-set-chain-to-unknown-as-set",
            Kind::GoodNamedAfter(..) => "good-named-after-another-policy",
            Kind::RouteQueryErrors(_) => "irr-error-to-route-queries",
            Kind::LegacyFilterSet => "filter-set-with-legacy-filter-attribute-only",
        }
    }
}

#[derive(Debug, Clone, Serialize, Deserialize)]
pub struct Case {
    pub policies: Vec<Kind>,
    /// every managed policy is already installed (as an earlier run left it) when the run starts:
    /// an expression that has *become* unevaluable
    #[serde(default)]
    pub installed_before: bool,
}

/// build running config + IRR db; returns also the harness-side expression of each policy
pub fn build(policies: &[Kind]) -> (Vec<Stmt>, Db, Vec<Option<Expr>>) {
    let goods: Vec<(u16, u16)> = policies
        .iter()
        .map(|k| match k {
            Kind::Good(a, b) | Kind::GoodAndRegex(a, b) | Kind::GoodViaFilterSet(a, b) | Kind::GoodNamedAfter(a, b, _) => (*a, *b),
            _ => (0, 0),
        })
        .collect();
    let (mut stmts, mut db) = scenario(&goods);
    let mut exprs = Vec::new();
    // the plain set name another policy's expression consists of, if it is one
    let plain_name = |j: usize| -> Option<String> {
        match policies.get(j)? {
            Kind::UnknownAsSet => Some(format!("AS-NOSUCH{j}")),
            Kind::IrrError(_) => Some(format!("AS-ERR{j}")),
            Kind::UnknownRouteSet => Some(format!("RS-NOSUCH{j}")),
            Kind::UnknownFilterSet => Some(format!("FLTR-NOSUCH{j}")),
            Kind::PeerAs => Some("PeerAS".into()),
            Kind::FilterSetChainToUnknown(_) => Some(format!("FLTR-C{j}-1")),
            Kind::Good(..) => Some(format!("RS-P{j}")),
            _ => None,
        }
    };
    for (i, k) in policies.iter().enumerate() {
        let mut rs = format!("RS-P{i}");
        if let Kind::GoodNamedAfter(_, _, j) = k {
            let j = *j as usize % policies.len();
            if let (true, Some(other)) = (j != i, plain_name(j)) {
                let members = db.route_sets.remove(&rs).unwrap_or_default();
                rs = if other.starts_with("RS-") { format!("{other}-P{i}") } else { format!("RS-P{i}-{other}") };
                db.route_sets.insert(rs.to_ascii_uppercase(), members);
            }
        }
        let text = match k {
            Kind::Good(..) | Kind::GoodNamedAfter(..) => rs.clone(),
            Kind::UnknownAsSet => format!("AS-NOSUCH{i}"),
            Kind::IrrError(other) => {
                let n = format!("AS-ERR{i}");
                db.as_sets.insert(n.clone(), vec!["AS65001".into()]);
                db.errors.insert(
                    n.clone(),
                    if *other { Answer::Other } else { Answer::NotUnique },
                );
                n
            }
            Kind::UnknownRouteSet => format!("RS-NOSUCH{i}"),
            Kind::UnknownFilterSet => format!("FLTR-NOSUCH{i}"),
            Kind::PeerAs => "PeerAS".into(),
            Kind::AsPathRegex => "<^AS65001$>".into(),
            Kind::Community => "community(65000:1)".into(),
            Kind::GoodAndRegex(..) => format!("{rs} AND <AS1>"),
            Kind::GoodViaFilterSet(..) => {
                let n = format!("FLTR-G{i}");
                db.filter_sets.insert(n.clone(), vec![rs.clone()]);
                n
            }
            Kind::RouteQueryErrors(k) => {
                let n = format!("AS-RQ{i}");
                let asn = 65100 + i as u32;
                db.as_sets.insert(n.clone(), vec![format!("AS{asn}")]);
                db.routes.insert(asn, (vec!["192.0.2.0/24".into()], vec!["2001:db8::/32".into()]));
                db.errors.insert(format!("AS{asn}/g"), Answer::Other);
                db.errors.insert(format!("AS{asn}/6"), Answer::Other);
                db.f_text = *k;
                n
            }
            Kind::LegacyFilterSet => {
                let n = format!("FLTR-L{i}");
                db.filter_sets.insert(n.clone(), vec!["AS65001".into()]);
                db.legacy_filter_sets.insert(n.clone());
                n
            }
            Kind::FilterSetChainToUnknown(d) => {
                let d = (*d).clamp(1, 10) as usize;
                for k in 1..=d {
                    let next = if k == d { format!("AS-NOSUCH{i}") } else { format!("FLTR-C{i}-{}", k + 1) };
                    db.filter_sets.insert(format!("FLTR-C{i}-{k}"), vec![next]);
                }
                format!("FLTR-C{i}-1")
            }
        };
        if !k.evaluable() && !matches!(k, Kind::GoodAndRegex(..)) {
            db.route_sets.remove(&rs);
        }
        stmts[i].comment = Comment::Fltr(text);
        exprs.push(k.evaluable().then(|| Expr::RouteSet(rs, Op::None)));
    }
    (stmts, db, exprs)
}

/// compare what is installed for `name` with the RPSL set of `expr`
pub fn installed_matches(
    after: &Config,
    name: &str,
    db: &Db,
    expr: &Expr,
) -> Result<(), String> {
    let Some(pol) = after.get(name) else {
        return Err(format!("policy {name:?} is not installed"));
    };
    let mut ranges: Vec<PRange> = Vec::new();
    for fam in ["inet", "inet6"] {
        for e in accept_entries(pol, fam) {
            match PRange::from_entry(&e) {
                Some(r) => ranges.push(r),
                None => return Err(format!("unparseable installed entry {e:?}")),
            }
        }
    }
    if pol.default_action.as_deref() != Some("reject") {
        return Err(format!("policy {name:?} does not end in reject"));
    }
    let fe = BTreeMap::new();
    let oracle = Oracle::new(db, &fe);
    compare(&oracle, expr, &ranges, &[]).map(|_| ()).map_err(|(p, want)| {
        format!(
            "policy {name:?}: route {} is {} the evaluated set of {} but {} what is installed ({:?})",
            p.to_string(),
            if want { "in" } else { "not in" },
            expr.text(),
            if want { "not in" } else { "in" },
            ranges.iter().map(PRange::to_plain).collect::<Vec<_>>()
        )
    })
}

pub struct C15(pub crate::fullrun::Runner);

fn kind_strategy() -> impl Strategy<Value = Kind> {
    let m = || any::<u16>().prop_map(|m| m & 0xfff);
    prop_oneof![
        8 => (m(), m()).prop_map(|(a, b)| Kind::Good(a, b)),
        1 => Just(Kind::UnknownAsSet),
        1 => any::<bool>().prop_map(Kind::IrrError),
        1 => Just(Kind::UnknownRouteSet),
        1 => Just(Kind::UnknownFilterSet),
        1 => Just(Kind::PeerAs),
        1 => Just(Kind::AsPathRegex),
        1 => Just(Kind::Community),
        1 => (m(), m()).prop_map(|(a, b)| Kind::GoodAndRegex(a, b)),
        3 => (m(), m()).prop_map(|(a, b)| Kind::GoodViaFilterSet(a, b)),
        3 => (m(), m(), 0u8..9).prop_map(|(a, b, j)| Kind::GoodNamedAfter(a, b, j)),
        2 => (1u8..11).prop_map(Kind::FilterSetChainToUnknown),
        2 => (0u8..9).prop_map(Kind::RouteQueryErrors),
        1 => Just(Kind::LegacyFilterSet),
    ]
}

impl Prop for C15 {
    type Case = Case;
    fn name(&self) -> &'static str {
        match self.0 {
            crate::fullrun::Runner::Hook => "mixed-policy-sets",
            crate::fullrun::Runner::Binary => "mixed-policy-sets-binary",
        }
    }
    fn rule(&self) -> String {
        "2..9 managed policies (some evaluable only through a filter-set, some whose set name extends the text of another policy's expression) of which at least one is valid RPSL but unevaluable (a chain of up to 10 filter-sets ending in an unknown as-set, unknown as-set, \
         IRR error E/F to the set query, IRR error F (short, or 400 non-ASCII characters at every alignment) to the route queries of an as-set's members, a filter-set whose object has only the legacy filter: attribute, unknown route-set / filter-set, PeerAS, AS-path regular \
         expression, attribute match, set AND AS-path regexp) at generated positions, run through \
         the agent's real Updater::run with the real evaluator against fake IRRd and fake Junos. \
         Oracle: the run succeeds, a commit is received, and every evaluable policy is installed \
         with exactly its RPSL set (nothing is asserted about the unevaluable ones). Non-trivial = \
         at least one evaluable policy with a non-empty set next to an unevaluable one; distinct \
         by policy list"
            .into()
    }
    fn cases(&self, tier: Tier) -> u32 {
        match self.0 {
            crate::fullrun::Runner::Hook => tier.pick(1_500, 100_000),
            crate::fullrun::Runner::Binary => tier.pick(60, 4_000),
        }
    }
    fn fixed_cases(&self) -> Vec<Case> {
        // every unevaluable kind alone next to two good policies, at each position
        let bad = [
            Kind::UnknownAsSet,
            Kind::IrrError(false),
            Kind::IrrError(true),
            Kind::UnknownRouteSet,
            Kind::UnknownFilterSet,
            Kind::PeerAs,
            Kind::AsPathRegex,
            Kind::Community,
            Kind::GoodAndRegex(0b11, 0b1),
            Kind::LegacyFilterSet,
        ];
        let mut out = Vec::new();
        for b in bad {
            for pos in 0..3 {
                let mut v = vec![Kind::Good(0b101, 0b11), Kind::Good(0b10, 0)];
                v.insert(pos, b.clone());
                out.push(Case { policies: v.clone(), installed_before: false });
                out.push(Case { policies: v, installed_before: true });
            }
        }
        // an evaluable policy whose set name extends the unevaluable policy's expression text
        // error answers to the route queries of an as-set's members, in every text form
        for k in 0u8..9 {
            for pos in 0..3 {
                let mut v = vec![Kind::Good(0b101, 0b11), Kind::Good(0b10, 0)];
                v.insert(pos, Kind::RouteQueryErrors(k));
                out.push(Case { policies: v, installed_before: false });
            }
        }
        for b in [Kind::UnknownAsSet, Kind::IrrError(true), Kind::FilterSetChainToUnknown(2), Kind::PeerAs] {
            for (bad_at, good_refers_to) in [(0usize, 0u8), (2, 2)] {
                let mut v = vec![Kind::GoodNamedAfter(0b101, 0b11, good_refers_to), Kind::Good(0b10, 0)];
                v.insert(bad_at, b.clone());
                out.push(Case { policies: v, installed_before: false });
            }
        }
        out
    }
    fn strategy(&self, _tier: Tier) -> BoxedStrategy<Case> {
        (
            prop::collection::vec(kind_strategy(), 2..10)
                .prop_filter("at least one unevaluable", |v| v.iter().any(|k| !k.evaluable())),
            any::<bool>(),
        )
            .prop_map(|(policies, installed_before)| Case { policies, installed_before })
            .boxed()
    }
    fn check(&self, case: &Case) -> Obs {
        let mut obs = Obs::default();
        let (stmts, db, exprs) = build(&case.policies);
        let irrd = match FakeIrrd::start(db.clone(), 0) {
            Ok(s) => s,
            Err(e) => {
                obs.fail("harness-sanity:fake-irrd", format!("{e}"));
                return obs;
            }
        };
        let fake = Arc::new(Mutex::new(FakeJunos::new("bgpfu")));
        fake.lock().unwrap().running = stmts.clone();
        if case.policies.iter().enumerate().any(|(i, k)| match k {
            Kind::GoodNamedAfter(_, _, j) => {
                let j = *j as usize % case.policies.len();
                j != i && !case.policies[j].evaluable() && !matches!(case.policies[j], Kind::AsPathRegex | Kind::Community | Kind::GoodAndRegex(..))
            }
            _ => false,
        }) {
            obs.class("evaluable-set-name-extends-an-unevaluable-expression");
        }
        if case.installed_before {
            obs.class("policies-installed-before-the-run");
            let mut cfg = Config::default();
            for i in 0..case.policies.len() {
                cfg.policies.push(crate::junos_model::Policy {
                    name: format!("fltr-p{i}"),
                    comment: Some("Last updated at 2024-01-01 00:00:00Z from mp-filter expression AS-BEFORE".into()),
                    terms: vec![crate::junos_model::Term {
                        name: "inet".into(),
                        family: Some("inet".into()),
                        filters: [("10.0.0.0/8".to_string(), "/8-/24".to_string())].into_iter().collect(),
                        action: Some("accept".into()),
                    }],
                    default_action: Some("reject".into()),
                });
            }
            fake.lock().unwrap().ephemeral = cfg;
        }
        let result = crate::fullrun::agent_run(self.0, &fake, ("127.0.0.1", irrd.port), "bgpfu");
        let (after, commits, proto) = {
            let f = fake.lock().unwrap();
            (f.ephemeral.clone(), f.commits, f.protocol_errors.clone())
        };
        let bad: Vec<&'static str> = case
            .policies
            .iter()
            .filter(|k| !k.evaluable())
            .map(Kind::label)
            .collect();
        for b in &bad {
            obs.class(format!("unevaluable:{b}"));
        }
        obs.nontrivial = case
            .policies
            .iter()
            .any(|k| matches!(k, Kind::Good(a, b) | Kind::GoodViaFilterSet(a, b) if *a != 0 || *b != 0));
        // only constructs that can make the evaluator panic are candidates for the key
        let mut culprits: Vec<&str> = bad
            .iter()
            .copied()
            .filter(|b| matches!(*b, "PeerAS" | "as-path-regexp" | "attribute-match" | "set-AND-as-path-regexp"))
            .collect();
        if culprits.is_empty() {
            culprits = bad.clone();
        }
        culprits.sort_unstable();
        culprits.dedup();
        // attribute a failure to the construct(s) present; a single construct gives an exact key
        let key = culprits.join("+");
        match &result {
            RunResult::Ok => {}
            RunResult::Stuck => {
                obs.fail(format!("run-never-completes:{key}"), format!("policies {:?}", case.policies));
                return obs;
            }
            RunResult::Err(e) => {
                obs.fail(
                    format!("run-aborts-because-of-an-unevaluable-policy:{key}"),
                    format!("the run failed ({e}) with policies {:?}", case.policies),
                );
                return obs;
            }
        }
        if commits != 1 {
            obs.fail(
                format!("no-commit:{key}"),
                format!("{commits} commits received; policies {:?}", case.policies),
            );
        }
        for e in proto {
            obs.fail("protocol-error", e);
        }
        for (i, k) in case.policies.iter().enumerate() {
            if let Some(expr) = &exprs[i] {
                let _ = k;
                if let Err(msg) = installed_matches(&after, &format!("fltr-p{i}"), &db, expr) {
                    obs.fail(format!("evaluable-policy-not-updated:{key}"), msg);
                }
            }
        }
        obs
    }
    fn assumptions(&self) -> Vec<String> {
        vec![
            "unknown route-sets and filter-sets evaluate to the empty set by the library's documented design; they are generated and the run must still succeed".into(),
            "nothing is asserted about the unevaluable policy itself (C03's subject)".into(),
        ]
    }
}

pub fn property() -> Property {
    Property {
        id: "C15",
        level: "exploration",
        parts: vec![
            Box::new(PropPart(C15(crate::fullrun::Runner::Hook))),
            Box::new(PropPart(C15(crate::fullrun::Runner::Binary))),
        ],
    }
}
