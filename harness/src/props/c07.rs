//! C07 — peer disconnect surfaces as an error, never as a hang or busy loop.
//!
//! Engine E with fault enumeration: every point of a session's life at which the peer can close
//! x clean / abrupt x 0, 1 or 3 outstanding requests x the three real transports. Oracle: session
//! establishment, every pending reply future and one subsequent request each complete (with an
//! error, or with the value the peer did send) within the bound; CPU accounting over the waiting
//! window separates "waits forever" from "spins".

use std::time::{Duration, Instant};

use netconf::{
    message::rpc::operation::{Builder as _, GetConfig, Opaque},
    transport::Transport,
    Session,
};
use proptest::prelude::*;
use serde::{Deserialize, Serialize};
use tokio::net::TcpListener;

use crate::{
    core::{Obs, Prop, PropPart, Property, Tier},
    net::{self, PreClose},
    ops::Ds,
    props::c06::Tr,
    script::{hello_bytes, reply_message, Script, Step},
    sess::{BASE10, CAP_CANDIDATE},
};

#[derive(Debug, Clone, Copy, PartialEq, Eq, Serialize, Deserialize)]
pub enum Point {
    AfterAccept,
    DuringHandshake,
    BeforeHello,
    InsideHello,
    IdleAfterHello,
    AfterRequests,
    InsideReply,
    AfterFirstReply,
}

pub const POINTS: [Point; 8] = [
    Point::AfterAccept,
    Point::DuringHandshake,
    Point::BeforeHello,
    Point::InsideHello,
    Point::IdleAfterHello,
    Point::AfterRequests,
    Point::InsideReply,
    Point::AfterFirstReply,
];

#[derive(Debug, Clone, Serialize, Deserialize)]
pub struct Case {
    pub transport: Tr,
    pub point: Point,
    pub abrupt: bool,
    /// outstanding requests when the peer closes (for the points after the hello)
    pub outstanding: u8,
    /// where inside the hello / reply the stream is cut (fraction)
    pub cut: u16,
    /// (clean only) end of stream without closing the connection: close_notify with TCP left
    /// open / SSH channel EOF without close / child closes stdout and lives on
    #[serde(default)]
    pub half: bool,
}

pub fn bound() -> Duration {
    Duration::from_millis(
        std::env::var("VERIF_C07_BOUND_MS")
            .ok()
            .and_then(|v| v.parse().ok())
            .unwrap_or(10_000),
    )
}

fn cpu_ns() -> u64 {
    let mut ts = libc::timespec {
        tv_sec: 0,
        tv_nsec: 0,
    };
    // SAFETY: plain syscall writing into a local
    unsafe { libc::clock_gettime(libc::CLOCK_PROCESS_CPUTIME_ID, &mut ts) };
    ts.tv_sec as u64 * 1_000_000_000 + ts.tv_nsec as u64
}

fn script_for(case: &Case) -> (Script, PreClose) {
    let hello = hello_bytes(&[BASE10, CAP_CANDIDATE], 9);
    let k = case.outstanding.max(1) as usize;
    let cut = |len: usize| ((case.cut as usize * len) >> 16).clamp(1, len - 1);
    let half = case.half && !case.abrupt && !matches!(case.point, Point::AfterAccept | Point::DuringHandshake);
    let close = if half {
        Step::HalfClose
    } else {
        Step::Close {
            abrupt: case.abrupt,
        }
    };
    let mut steps = Vec::new();
    let pre = match case.point {
        Point::AfterAccept => PreClose::AfterAccept {
            abrupt: case.abrupt,
        },
        Point::DuringHandshake => PreClose::DuringHandshake {
            abrupt: case.abrupt,
        },
        _ => PreClose::None,
    };
    match case.point {
        Point::AfterAccept | Point::DuringHandshake => {
            // for the local transport there is no handshake: exit before writing anything
            steps.push(close);
        }
        Point::BeforeHello => steps.push(close),
        Point::InsideHello => {
            steps.push(Step::Write(hello[..cut(hello.len())].to_vec()));
            steps.push(Step::PauseMs(20));
            steps.push(close);
        }
        Point::IdleAfterHello => {
            steps.push(Step::Write(hello));
            steps.push(Step::AwaitMessages(1));
            steps.push(Step::AwaitMessages(1 + case.outstanding as usize));
            steps.push(Step::PauseMs(30));
            steps.push(close);
        }
        Point::AfterRequests => {
            steps.push(Step::Write(hello));
            steps.push(Step::AwaitMessages(1 + k));
            steps.push(close);
        }
        Point::InsideReply => {
            steps.push(Step::Write(hello));
            steps.push(Step::AwaitMessages(1 + k));
            let r = reply_message("1", "<t xmlns=\"urn:verif\">first</t>");
            steps.push(Step::Write(r[..cut(r.len())].to_vec()));
            steps.push(Step::PauseMs(20));
            steps.push(close);
        }
        Point::AfterFirstReply => {
            steps.push(Step::Write(hello));
            steps.push(Step::AwaitMessages(1 + k));
            steps.push(Step::Reply {
                payloads: vec!["<t xmlns=\"urn:verif\">first</t>".into()],
                cuts: vec![],
                pause_ms: 0,
            });
            steps.push(Step::PauseMs(20));
            steps.push(close);
        }
    }
    if half {
        // keep the connection until the client goes away (or well past the bound)
        steps.push(Step::HoldMs(3 * bound().as_millis() as u64));
    }
    (Script { steps }, pre)
}

#[derive(Debug, Default)]
pub struct Outcome {
    /// (what, completed?, result text, wall ms)
    pub ops: Vec<(String, bool, String, u64)>,
    pub cpu_fraction: f64,
    pub window_ms: u64,
}

async fn client<T: Transport + 'static>(
    est: Result<Result<Session<T>, netconf::Error>, tokio::time::error::Elapsed>,
    case: &Case,
    out: &mut Outcome,
    started: Instant,
) {
    let b = bound();
    let mut sess = match est {
        Err(_) => {
            out.ops.push((
                "establish".into(),
                false,
                "PENDING".into(),
                started.elapsed().as_millis() as u64,
            ));
            return;
        }
        Ok(Err(e)) => {
            out.ops.push((
                "establish".into(),
                true,
                format!("Err({e:?})"),
                started.elapsed().as_millis() as u64,
            ));
            return;
        }
        Ok(Ok(s)) => {
            out.ops.push((
                "establish".into(),
                true,
                "Ok".into(),
                started.elapsed().as_millis() as u64,
            ));
            s
        }
    };
    let k = if matches!(case.point, Point::IdleAfterHello) {
        case.outstanding as usize
    } else {
        case.outstanding.max(1) as usize
    };
    let mut futs = Vec::new();
    for i in 0..k {
        let t = Instant::now();
        match tokio::time::timeout(
            b,
            sess.rpc::<GetConfig<Opaque>, _>(|bd| bd.source(Ds::Running.to_lib())?.finish()),
        )
        .await
        {
            Err(_) => out.ops.push((format!("send {i}"), false, "PENDING".into(), t.elapsed().as_millis() as u64)),
            Ok(Err(e)) => out.ops.push((format!("send {i}"), true, format!("Err({e:?})"), t.elapsed().as_millis() as u64)),
            Ok(Ok(f)) => futs.push((i, f)),
        }
    }
    let results = futures::future::join_all(futs.into_iter().map(|(i, f)| async move {
        let t = Instant::now();
        let r = tokio::time::timeout(b, f).await;
        (i, r, t.elapsed().as_millis() as u64)
    }))
    .await;
    for (i, r, ms) in results {
        match r {
            Err(_) => out.ops.push((format!("reply {i}"), false, "PENDING".into(), ms)),
            Ok(Ok(v)) => out.ops.push((format!("reply {i}"), true, format!("Ok({v})"), ms)),
            Ok(Err(e)) => out.ops.push((format!("reply {i}"), true, format!("Err({e:?})"), ms)),
        }
    }
    // one subsequent operation on the dead session
    tokio::time::sleep(Duration::from_millis(60)).await;
    let t = Instant::now();
    let sub = tokio::time::timeout(b, async {
        match sess
            .rpc::<GetConfig<Opaque>, _>(|bd| bd.source(Ds::Running.to_lib())?.finish())
            .await
        {
            Err(e) => format!("Err(send: {e:?})"),
            Ok(f) => match f.await {
                Ok(v) => format!("Ok({v})"),
                Err(e) => format!("Err({e:?})"),
            },
        }
    })
    .await;
    match sub {
        Err(_) => out.ops.push(("subsequent".into(), false, "PENDING".into(), t.elapsed().as_millis() as u64)),
        Ok(s) => out.ops.push(("subsequent".into(), true, s, t.elapsed().as_millis() as u64)),
    }
}

pub fn run_case(case: &Case) -> Result<Outcome, String> {
    let c = case.clone();
    let cpu0 = cpu_ns();
    let t0 = Instant::now();
    match crate::core::with_watchdog(bound() * 4 + Duration::from_secs(5), move || run_case_inner(&c)) {
        Some(r) => r,
        None => {
            // the client never even yielded to its own timeouts: it loops inside one poll
            let wall = t0.elapsed();
            Ok(Outcome {
                ops: vec![(
                    "session (the client thread never returned)".into(),
                    false,
                    "PENDING".into(),
                    wall.as_millis() as u64,
                )],
                cpu_fraction: (cpu_ns() - cpu0) as f64 / wall.as_nanos().max(1) as f64,
                window_ms: wall.as_millis() as u64,
            })
        }
    }
}

fn run_case_inner(case: &Case) -> Result<Outcome, String> {
    let rt = tokio::runtime::Builder::new_multi_thread()
        .worker_threads(2)
        .enable_all()
        .build()
        .map_err(|e| format!("runtime: {e}"))?;
    let case = case.clone();
    let r = rt.block_on(async move {
        let (script, pre) = script_for(&case);
        let mut out = Outcome::default();
        let b = bound();
        let started = Instant::now();
        let cpu0 = cpu_ns();
        match case.transport {
            Tr::Tls => {
                let listener = net::bind_local().map_err(|e| e.to_string())?;
                let port = listener.local_addr().map_err(|e| e.to_string())?.port();
                let acceptor = net::tls_acceptor("server.crt", "server.key");
                let server = tokio::spawn(net::tls_server(listener, acceptor, script, pre));
                let dir = net::pki_dir();
                let ca = net::read_certs(&dir.join("ca.crt")).remove(0);
                let cert = net::read_certs(&dir.join("client-rsa.crt")).remove(0);
                let key = net::read_key(&dir.join("client-rsa.pk8.key")).ok_or("client key")?;
                let est = tokio::time::timeout(
                    b,
                    Session::tls(("127.0.0.1", port), "localhost", ca, cert, key),
                )
                .await;
                client(est, &case, &mut out, started).await;
                server.abort();
            }
            Tr::Ssh => {
                let listener = net::bind_local().map_err(|e| e.to_string())?;
                let port = listener.local_addr().map_err(|e| e.to_string())?.port();
                let server = tokio::spawn(net::ssh_server(
                    listener,
                    net::ssh_config(),
                    "secret-pw".into(),
                    script,
                    pre,
                ));
                let est = tokio::time::timeout(
                    b,
                    Session::ssh(
                        ("127.0.0.1", port),
                        "verif".to_string(),
                        "secret-pw".parse().map_err(|_| "password")?,
                    ),
                )
                .await;
                client(est, &case, &mut out, started).await;
                server.abort();
            }
            Tr::Local => {
                let files = net::prepare_local(&script, "c07");
                let est = {
                    let _guard = net::LOCAL_SPAWN.lock().await;
                    std::env::set_var("BGPFU_VERIF_CLI_PATH", net::fake_cli_path());
                    std::env::set_var("FAKE_CLI_SCRIPT", &files.script);
                    std::env::set_var("FAKE_CLI_MARKS", &files.marks);
                    tokio::time::timeout(b, Session::junos_local()).await
                };
                client(est, &case, &mut out, started).await;
                let _ = std::fs::remove_file(&files.script);
                let _ = std::fs::remove_file(&files.marks);
            }
        }
        let wall = started.elapsed();
        out.window_ms = wall.as_millis() as u64;
        out.cpu_fraction = (cpu_ns() - cpu0) as f64 / wall.as_nanos().max(1) as f64;
        Ok::<_, String>(out)
    });
    rt.shutdown_timeout(Duration::from_millis(300));
    r
}

fn judge(case: &Case, out: &Outcome, obs: &mut Obs) {
    let t = format!("{:?}", case.transport).to_lowercase();
    let key = format!(
        "{t}:{:?}:{}",
        case.point,
        if case.abrupt {
            "abrupt"
        } else if case.half {
            "end-of-stream-only"
        } else {
            "clean"
        }
    );
    let pending: Vec<&(String, bool, String, u64)> = out.ops.iter().filter(|o| !o.1).collect();
    if !pending.is_empty() {
        let spin = out.cpu_fraction > 0.5;
        obs.fail(
            format!("{}:{key}", if spin { "busy-loop" } else { "never-completes" }),
            format!(
                "{} still pending after the bound of {:?} although the peer closed the connection ({}); the process used {:.0}% of a CPU while waiting; operations: {:?}",
                pending.iter().map(|o| o.0.as_str()).collect::<Vec<_>>().join(", "),
                bound(),
                if spin { "spinning" } else { "idle" },
                out.cpu_fraction * 100.0,
                out.ops
            ),
        );
        return;
    }
    // everything completed: what must have failed?
    let early = matches!(
        case.point,
        Point::AfterAccept | Point::DuringHandshake | Point::BeforeHello | Point::InsideHello
    );
    let est = out.ops.iter().find(|o| o.0 == "establish");
    match est {
        Some(o) if early && o.2 == "Ok" => obs.fail(
            format!("established-although-peer-closed:{key}"),
            format!("session established although the peer closed before completing its hello: {:?}", out.ops),
        ),
        Some(o) if !early && o.2 != "Ok" => obs.fail(
            format!("harness-sanity:establishment-failed:{key}"),
            format!("{:?}", o),
        ),
        _ => {}
    }
    if !early {
        for o in &out.ops {
            let ok = o.2.starts_with("Ok");
            let first_reply_sent = case.point == Point::AfterFirstReply && o.0 == "reply 0";
            if o.0.starts_with("reply") && ok && !first_reply_sent {
                obs.fail(
                    format!("success-without-reply:{key}"),
                    format!("{} reported success although the peer closed without answering: {:?}", o.0, out.ops),
                );
            }
            if o.0 == "subsequent" && ok {
                obs.fail(
                    format!("success-on-closed-session:{key}"),
                    format!("an operation on the closed session reported success: {:?}", out.ops),
                );
            }
        }
    }
    // a completed but spinning client (e.g. a background task that never ends) shows up as CPU
    if out.window_ms >= 1000 && out.cpu_fraction > 0.6 {
        obs.fail(
            format!("busy-loop:{key}"),
            format!("the process used {:.0}% of a CPU over {} ms", out.cpu_fraction * 100.0, out.window_ms),
        );
    }
}

pub struct C07;

impl Prop for C07 {
    type Case = Case;
    fn max_shrink_iters(&self) -> u32 {
        60
    }
    fn name(&self) -> &'static str {
        "close-points"
    }
    fn rule(&self) -> String {
        "transport {TLS, SSH, local CLI} x close point {after TCP accept, during the TLS/SSH \
         handshake, before the hello, inside the hello, idle after the hello, after receiving the \
         requests, inside a reply, after the first of several replies} x manner {clean: \
         close_notify+FIN / channel EOF+close / child exit; clean, end of stream only: close_notify \
         with the TCP connection left open / channel EOF without close / child closes stdout and \
         lives on; abrupt: TCP reset / SIGKILL of the child} x outstanding requests {0, 1, 3}: enumerated completely; cut positions inside the \
         hello / reply are generated. Oracle: establishment, every pending reply and one \
         subsequent request complete within the bound (10 s) with an error (or the value the peer \
         did send), and the process does not burn CPU while waiting. Non-trivial = the peer closes \
         with at least one request outstanding, or inside a message; distinct by case"
            .into()
    }
    fn cases(&self, tier: Tier) -> u32 {
        tier.pick(60, 6_000)
    }
    fn parallel(&self) -> bool {
        // CPU accounting is process-wide
        false
    }
    fn exhaustive(&self, _tier: Tier) -> bool {
        true
    }
    fn fixed_cases(&self) -> Vec<Case> {
        let mut out = Vec::new();
        for transport in [Tr::Tls, Tr::Ssh, Tr::Local] {
            for point in POINTS {
                if transport == Tr::Local
                    && matches!(point, Point::AfterAccept | Point::DuringHandshake)
                {
                    continue; // no connection establishment below the hello for a child process
                }
                for abrupt in [false, true] {
                    let ks: &[u8] = match point {
                        Point::AfterAccept
                        | Point::DuringHandshake
                        | Point::BeforeHello
                        | Point::InsideHello => &[0],
                        Point::IdleAfterHello => &[0],
                        Point::AfterFirstReply => &[1, 3],
                        _ => &[1, 3],
                    };
                    for k in ks {
                        out.push(Case {
                            transport,
                            point,
                            abrupt,
                            outstanding: *k,
                            cut: 32768,
                            half: false,
                        });
                        if !abrupt && !matches!(point, Point::AfterAccept | Point::DuringHandshake) {
                            out.push(Case {
                                transport,
                                point,
                                abrupt,
                                outstanding: *k,
                                cut: 32768,
                                half: true,
                            });
                        }
                    }
                }
            }
        }
        out
    }
    fn strategy(&self, _tier: Tier) -> BoxedStrategy<Case> {
        (
            prop_oneof![Just(Tr::Tls), Just(Tr::Ssh), Just(Tr::Local)],
            0usize..POINTS.len(),
            any::<bool>(),
            prop_oneof![Just(0u8), Just(1u8), Just(3u8)],
            any::<u16>(),
            prop::bool::weighted(0.4),
        )
            .prop_map(|(transport, p, abrupt, outstanding, cut, half)| {
                let mut point = POINTS[p];
                if transport == Tr::Local
                    && matches!(point, Point::AfterAccept | Point::DuringHandshake)
                {
                    point = Point::BeforeHello;
                }
                Case {
                    transport,
                    point,
                    abrupt,
                    outstanding,
                    cut,
                    half: half && !abrupt,
                }
            })
            .boxed()
    }
    fn check(&self, case: &Case) -> Obs {
        let mut obs = Obs::default();
        obs.class(format!("transport:{:?}", case.transport));
        obs.class(format!("point:{:?}", case.point));
        obs.class(if case.abrupt {
            "abrupt"
        } else if case.half {
            "clean:end-of-stream-only(connection left open)"
        } else {
            "clean"
        });
        obs.nontrivial = matches!(
            case.point,
            Point::InsideHello | Point::AfterRequests | Point::InsideReply | Point::AfterFirstReply
        );
        match run_case(case) {
            Err(e) => obs.fail("harness-sanity:setup", e),
            Ok(out) => {
                judge(case, &out, &mut obs);
                if !obs.failures.is_empty() && !obs.failures[0].0.starts_with("harness") {
                    // the bound is wall-clock: confirm by an immediate re-run before reporting
                    let mut again = Obs::default();
                    match run_case(case) {
                        Ok(o2) => judge(case, &o2, &mut again),
                        Err(e) => again.fail("harness-sanity:setup", e),
                    }
                    if again.failures.is_empty() {
                        obs.failures.clear();
                        obs.class("not-reproduced(discarded)");
                    }
                }
            }
        }
        obs
    }
    fn assumptions(&self) -> Vec<String> {
        vec![
            "the bound (10 s on loopback, four orders of magnitude above the normal path) is the property's own observable; a miss must reproduce on an immediate re-run".into(),
            "spin vs wait is decided by process CPU time over the waiting window (cases run sequentially)".into(),
        ]
    }
}

pub fn property() -> Property {
    Property {
        id: "C07",
        level: "fault_enumeration",
        parts: vec![
            Box::new(PropPart(C07)),
            Box::new(PropPart(crate::props::bin_parts::C07Agent)),
        ],
    }
}
