//! C09 — requests use only what the server's advertised capabilities permit.
//!
//! Engine F. Oracle: a table transcribed from RFC 6241 section 8 and the `if-feature`
//! statements of its YANG module (ietf-netconf), evaluated
//!  (a) on the *bytes on the wire* for the "only if" direction, and
//!  (b) on the caller's request for the converse ("can be built and sent").

use proptest::prelude::*;
use serde::{Deserialize, Serialize};

use crate::{
    core::{pick_idx, Obs, Prop, PropPart, Property, Tier},
    ops::{
        run_req, AtSpec, CfgOrUrl, Ds, DsOrCfg, DsOrUrl, FilterSpec, LoadSrc, OpenTarget, Outcome,
        ReqSpec,
    },
    sess::*,
    xmlstrict::{parse_document, Elem},
};

pub const STD_CAPS: [&str; 10] = [
    CAP_WRITABLE_RUNNING,
    CAP_CANDIDATE,
    CAP_CONFIRMED10,
    CAP_CONFIRMED11,
    CAP_ROLLBACK,
    CAP_VALIDATE10,
    CAP_VALIDATE11,
    CAP_STARTUP,
    CAP_XPATH,
    CAP_JUNOS,
];
pub const SCHEMES: [&str; 5] = ["file", "ftp", "http", "https", "sftp"];

#[derive(Debug, Clone, PartialEq, Eq, Hash, Serialize, Deserialize)]
pub struct CapSet {
    /// bit i = STD_CAPS[i]
    pub std: u16,
    /// :base:1.1 also advertised
    pub base11: bool,
    /// url capability advertised (possibly with no usable scheme)
    pub url: bool,
    /// bit i = SCHEMES[i]
    pub schemes: u8,
    /// order in which the server lists things: bit 0 reverses the scheme list, bits 1-2 rotate it,
    /// bits 3-7 rotate the list of capabilities (Junos advertises `scheme=http,ftp,file`)
    #[serde(default)]
    pub order: u8,
    /// bit i: a URI that only looks like STD_CAPS[i] is advertised as well (`<uri>?x`, `<uri>#f`,
    /// `<uri>/`, `<uri>0`, chosen by bits 12-13): a different URI, it permits nothing
    #[serde(default)]
    pub lookalikes: u16,
}

impl CapSet {
    pub fn has(&self, cap: &str) -> bool {
        STD_CAPS
            .iter()
            .position(|c| *c == cap)
            .is_some_and(|i| self.std & (1 << i) != 0)
    }
    pub fn has_scheme(&self, scheme: &str) -> bool {
        self.url
            && SCHEMES
                .iter()
                .position(|s| *s == scheme)
                .is_some_and(|i| self.schemes & (1 << i) != 0)
    }
    pub fn uris(&self) -> Vec<String> {
        let mut v = vec![BASE10.to_string()];
        if self.base11 {
            v.push(BASE11.to_string());
        }
        for (i, c) in STD_CAPS.iter().enumerate() {
            if self.std & (1 << i) != 0 {
                v.push((*c).to_string());
            }
        }
        if self.url {
            let mut s: Vec<&str> = SCHEMES
                .iter()
                .enumerate()
                .filter(|(i, _)| self.schemes & (1 << i) != 0)
                .map(|(_, s)| *s)
                .collect();
            if self.order & 1 != 0 {
                s.reverse();
            }
            if !s.is_empty() {
                let k = ((self.order >> 1) & 3) as usize % s.len();
                s.rotate_left(k);
            }
            v.push(format!("{CAP_URL}?scheme={}", s.join(",")));
        }
        for (i, c) in STD_CAPS.iter().enumerate() {
            if self.lookalikes & (1 << i) != 0 {
                v.push(match (self.lookalikes >> 12) & 3 {
                    0 => format!("{c}?x"),
                    1 => format!("{c}#f"),
                    2 => format!("{c}/"),
                    _ => format!("{c}0"),
                });
            }
        }
        let k = (self.order >> 3) as usize % v.len();
        v.rotate_left(k);
        v
    }
    fn satisfies(&self, r: &Req) -> bool {
        match r {
            Req::Cap(c) => self.has(c),
            Req::Any(cs) => cs.iter().any(|c| self.has(c)),
            Req::Scheme(s) => self.has_scheme(s),
            Req::Never(_) => false,
        }
    }
    fn add(&mut self, r: &Req) {
        match r {
            Req::Cap(c) => self.set(c),
            Req::Any(cs) => self.set(cs[0]),
            Req::Scheme(s) => {
                self.url = true;
                if let Some(i) = SCHEMES.iter().position(|x| x == s) {
                    self.schemes |= 1 << i;
                }
            }
            Req::Never(_) => {}
        }
    }
    fn set(&mut self, cap: &str) {
        if let Some(i) = STD_CAPS.iter().position(|c| *c == cap) {
            self.std |= 1 << i;
        }
    }
    /// remove the i-th (of the set bits / schemes) element; returns what was removed
    fn remove_nth(&mut self, n: usize) -> Option<String> {
        let mut elems: Vec<(u8, usize)> = Vec::new();
        for i in 0..STD_CAPS.len() {
            if self.std & (1 << i) != 0 {
                elems.push((0, i));
            }
        }
        if self.url {
            for i in 0..SCHEMES.len() {
                if self.schemes & (1 << i) != 0 {
                    elems.push((1, i));
                }
            }
        }
        if elems.is_empty() {
            return None;
        }
        let (k, i) = elems[n % elems.len()];
        if k == 0 {
            self.std &= !(1 << i);
            Some(STD_CAPS[i].to_string())
        } else {
            self.schemes &= !(1 << i);
            Some(format!("scheme={}", SCHEMES[i]))
        }
    }
}

#[derive(Debug, Clone, PartialEq, Eq)]
pub enum Req {
    Cap(&'static str),
    Any(Vec<&'static str>),
    Scheme(String),
    /// RFC 6241 does not allow this under any capability
    Never(&'static str),
}

fn scheme_of(url: &str) -> String {
    url.split(':').next().unwrap_or("").to_string()
}

fn ds_source(d: Ds, out: &mut Vec<Req>) {
    match d {
        Ds::Running => {}
        Ds::Candidate => out.push(Req::Cap(CAP_CANDIDATE)),
        Ds::Startup => out.push(Req::Cap(CAP_STARTUP)),
    }
}

const VALIDATE_ANY: [&str; 2] = [CAP_VALIDATE10, CAP_VALIDATE11];
const CONFIRMED_ANY: [&str; 2] = [CAP_CONFIRMED10, CAP_CONFIRMED11];

/// Requirements of the caller's request: (hard, soft). Soft = attached to an explicit call that
/// sets a parameter to a value that is not serialised (accepted either way). `None` = the request
/// is invalid for reasons other than capabilities (not judged in the converse direction).
pub fn request_requirements(spec: &ReqSpec) -> Option<(Vec<Req>, Vec<Req>)> {
    let mut hard = Vec::new();
    let mut soft = Vec::new();
    let filter = |f: &Option<Option<FilterSpec>>, hard: &mut Vec<Req>| {
        if let Some(Some(FilterSpec::XPath(_))) = f {
            hard.push(Req::Cap(CAP_XPATH));
        }
    };
    match spec {
        ReqSpec::Get { filter: f } => filter(f, &mut hard),
        ReqSpec::GetConfig { source, filter: f } => {
            ds_source((*source)?, &mut hard);
            filter(f, &mut hard);
        }
        ReqSpec::EditConfig {
            target,
            source,
            default_operation: _,
            error_option,
            test_option,
            order: _,
        } => {
            match (*target)? {
                Ds::Running => hard.push(Req::Cap(CAP_WRITABLE_RUNNING)),
                Ds::Candidate => hard.push(Req::Cap(CAP_CANDIDATE)),
                Ds::Startup => hard.push(Req::Never("edit-config cannot target <startup/>")),
            }
            match source.as_ref()? {
                CfgOrUrl::Config(_) => {}
                CfgOrUrl::Url(u) => hard.push(Req::Scheme(scheme_of(u))),
            }
            match error_option {
                Some(2) => hard.push(Req::Cap(CAP_ROLLBACK)),
                _ => {}
            }
            match test_option {
                Some(0) => soft.push(Req::Any(VALIDATE_ANY.to_vec())),
                Some(1) => hard.push(Req::Any(VALIDATE_ANY.to_vec())),
                Some(_) => hard.push(Req::Cap(CAP_VALIDATE11)),
                None => {}
            }
        }
        ReqSpec::CopyConfig { target, source } => {
            match (*target)? {
                Ds::Running => hard.push(Req::Cap(CAP_WRITABLE_RUNNING)),
                Ds::Candidate => hard.push(Req::Cap(CAP_CANDIDATE)),
                Ds::Startup => hard.push(Req::Cap(CAP_STARTUP)),
            }
            match source.as_ref()? {
                DsOrCfg::Ds(d) => ds_source(*d, &mut hard),
                DsOrCfg::Config(_) => {}
            }
        }
        ReqSpec::DeleteConfig { target } => match target.as_ref()? {
            DsOrUrl::Ds(Ds::Startup) => hard.push(Req::Cap(CAP_STARTUP)),
            DsOrUrl::Ds(Ds::Running) => hard.push(Req::Never("delete-config cannot target <running/>")),
            DsOrUrl::Ds(Ds::Candidate) => {
                hard.push(Req::Never("delete-config cannot target <candidate/>"));
            }
            DsOrUrl::Url(u) => hard.push(Req::Scheme(scheme_of(u))),
        },
        ReqSpec::Lock { target } | ReqSpec::Unlock { target } => ds_source((*target)?, &mut hard),
        ReqSpec::KillSession { id } => {
            let id = (*id)?;
            if id == 0 || id == 4711 {
                return None;
            }
        }
        ReqSpec::Commit {
            confirmed,
            confirm_timeout,
            persist,
            persist_id,
            ..
        } => {
            hard.push(Req::Cap(CAP_CANDIDATE));
            let is_confirmed = *confirmed == Some(true);
            match confirmed {
                Some(true) => hard.push(Req::Any(CONFIRMED_ANY.to_vec())),
                Some(false) => soft.push(Req::Any(CONFIRMED_ANY.to_vec())),
                None => {}
            }
            if let Some(t) = confirm_timeout {
                if is_confirmed && *t != 600 {
                    hard.push(Req::Any(CONFIRMED_ANY.to_vec()));
                } else {
                    soft.push(Req::Any(CONFIRMED_ANY.to_vec()));
                }
            }
            match persist {
                Some(Some(_)) => {
                    if !is_confirmed {
                        return None;
                    }
                    hard.push(Req::Cap(CAP_CONFIRMED11));
                }
                Some(None) => soft.push(Req::Cap(CAP_CONFIRMED11)),
                None => {}
            }
            match persist_id {
                Some(Some(_)) => {
                    if is_confirmed {
                        return None;
                    }
                    hard.push(Req::Cap(CAP_CONFIRMED11));
                }
                Some(None) => soft.push(Req::Cap(CAP_CONFIRMED11)),
                None => {}
            }
        }
        ReqSpec::CancelCommit { .. } => hard.push(Req::Cap(CAP_CONFIRMED11)),
        ReqSpec::DiscardChanges => hard.push(Req::Cap(CAP_CANDIDATE)),
        ReqSpec::Validate { source } => {
            hard.push(Req::Any(VALIDATE_ANY.to_vec()));
            match source.as_ref()? {
                DsOrCfg::Ds(d) => ds_source(*d, &mut hard),
                DsOrCfg::Config(_) => {}
            }
        }
        ReqSpec::CloseSession => {}
        ReqSpec::OpenConfiguration { target } => {
            target.as_ref()?;
            hard.push(Req::Cap(CAP_JUNOS));
        }
        ReqSpec::LoadConfiguration { src } => {
            src.as_ref()?;
            hard.push(Req::Cap(CAP_JUNOS));
        }
        ReqSpec::CloseConfiguration
        | ReqSpec::LockConfiguration
        | ReqSpec::UnlockConfiguration
        | ReqSpec::CommitConfiguration { .. } => hard.push(Req::Cap(CAP_JUNOS)),
    }
    Some((hard, soft))
}

fn ds_child(parent: &Elem) -> Option<&'static str> {
    for d in ["running", "candidate", "startup"] {
        if parent.child(d).is_some() {
            return Some(d);
        }
    }
    None
}

/// Requirements of what is actually on the wire.
pub fn wire_requirements(op: &Elem) -> Vec<Req> {
    let mut out = Vec::new();
    let src = |parent: Option<&Elem>, out: &mut Vec<Req>| {
        if let Some(p) = parent {
            match ds_child(p) {
                Some("candidate") => out.push(Req::Cap(CAP_CANDIDATE)),
                Some("startup") => out.push(Req::Cap(CAP_STARTUP)),
                _ => {}
            }
            if let Some(u) = p.child("url") {
                out.push(Req::Scheme(scheme_of(&u.text())));
            }
        }
    };
    let filter = |op: &Elem, out: &mut Vec<Req>| {
        if let Some(f) = op.child("filter") {
            if f.attr("type") == Some("xpath") || f.attr("select").is_some() {
                out.push(Req::Cap(CAP_XPATH));
            }
        }
    };
    match op.name.as_str() {
        "get" => filter(op, &mut out),
        "get-config" => {
            src(op.child("source"), &mut out);
            filter(op, &mut out);
        }
        "edit-config" => {
            if let Some(t) = op.child("target") {
                match ds_child(t) {
                    Some("running") => out.push(Req::Cap(CAP_WRITABLE_RUNNING)),
                    Some("candidate") => out.push(Req::Cap(CAP_CANDIDATE)),
                    Some("startup") => {
                        out.push(Req::Never("edit-config cannot target <startup/>"));
                    }
                    _ => {}
                }
            }
            if let Some(t) = op.child("test-option") {
                out.push(Req::Any(VALIDATE_ANY.to_vec()));
                if t.text().trim() == "test-only" {
                    out.push(Req::Cap(CAP_VALIDATE11));
                }
            }
            if let Some(e) = op.child("error-option") {
                if e.text().trim() == "rollback-on-error" {
                    out.push(Req::Cap(CAP_ROLLBACK));
                }
            }
            if let Some(u) = op.child("url") {
                out.push(Req::Scheme(scheme_of(&u.text())));
            }
        }
        "copy-config" => {
            if let Some(t) = op.child("target") {
                match ds_child(t) {
                    Some("running") => out.push(Req::Cap(CAP_WRITABLE_RUNNING)),
                    Some("candidate") => out.push(Req::Cap(CAP_CANDIDATE)),
                    Some("startup") => out.push(Req::Cap(CAP_STARTUP)),
                    _ => {}
                }
                if let Some(u) = t.child("url") {
                    out.push(Req::Scheme(scheme_of(&u.text())));
                }
            }
            src(op.child("source"), &mut out);
        }
        "delete-config" => {
            if let Some(t) = op.child("target") {
                match ds_child(t) {
                    Some("running") => {
                        out.push(Req::Never("delete-config cannot target <running/>"));
                    }
                    Some("candidate") => {
                        out.push(Req::Never("delete-config cannot target <candidate/>"));
                    }
                    Some("startup") => out.push(Req::Cap(CAP_STARTUP)),
                    _ => {}
                }
                if let Some(u) = t.child("url") {
                    out.push(Req::Scheme(scheme_of(&u.text())));
                }
            }
        }
        "lock" | "unlock" => src(op.child("target"), &mut out),
        "commit" => {
            out.push(Req::Cap(CAP_CANDIDATE));
            if op.child("confirmed").is_some() || op.child("confirm-timeout").is_some() {
                out.push(Req::Any(CONFIRMED_ANY.to_vec()));
            }
            if op.child("persist").is_some() || op.child("persist-id").is_some() {
                out.push(Req::Cap(CAP_CONFIRMED11));
            }
        }
        "cancel-commit" => out.push(Req::Cap(CAP_CONFIRMED11)),
        "discard-changes" => out.push(Req::Cap(CAP_CANDIDATE)),
        "validate" => {
            out.push(Req::Any(VALIDATE_ANY.to_vec()));
            src(op.child("source"), &mut out);
        }
        "kill-session" | "close-session" => {}
        "open-configuration" | "close-configuration" | "lock-configuration"
        | "unlock-configuration" | "commit-configuration" | "load-configuration" => {
            out.push(Req::Cap(CAP_JUNOS));
        }
        _ => out.push(Req::Never("unknown operation element")),
    }
    out
}

#[derive(Debug, Clone, Serialize, Deserialize)]
pub struct Case {
    pub spec: ReqSpec,
    pub caps: CapSet,
    /// how the capability set was chosen (for the histogram)
    pub mode: String,
}

fn url_strategy() -> impl Strategy<Value = String> {
    (0usize..SCHEMES.len(), "[a-z]{1,6}").prop_map(|(i, h)| format!("{}://{h}/cfg", SCHEMES[i]))
}

fn ds() -> impl Strategy<Value = Ds> {
    (0usize..3).prop_map(|i| Ds::ALL[i])
}

fn filter_opt() -> impl Strategy<Value = Option<Option<FilterSpec>>> {
    prop_oneof![
        Just(None),
        Just(Some(None)),
        Just(Some(Some(FilterSpec::Subtree("<top/>".into())))),
        Just(Some(Some(FilterSpec::XPath("/top/x".into())))),
        Just(Some(Some(FilterSpec::XPath("/top/x".into())))),
    ]
}

fn tok_opt() -> impl Strategy<Value = Option<Option<String>>> {
    prop_oneof![
        3 => Just(None),
        1 => Just(Some(None)),
        3 => Just(Some(Some("tok-1".to_string()))),
    ]
}

pub fn spec_strategy() -> BoxedStrategy<ReqSpec> {
    prop_oneof![
        2 => filter_opt().prop_map(|filter| ReqSpec::Get { filter }),
        3 => (ds(), filter_opt()).prop_map(|(s, filter)| ReqSpec::GetConfig { source: Some(s), filter }),
        6 => (ds(), prop_oneof![Just(CfgOrUrl::Config("<top/>".into())), url_strategy().prop_map(CfgOrUrl::Url)],
              prop::option::of(0u8..3), prop::option::of(0u8..3), prop::option::of(0u8..3), 0u8..120)
            .prop_map(|(t, s, d, e, x, order)| ReqSpec::EditConfig {
                target: Some(t), source: Some(s), default_operation: d, error_option: e, test_option: x, order }),
        3 => (ds(), prop_oneof![ds().prop_map(DsOrCfg::Ds), Just(DsOrCfg::Config("<top/>".into()))])
            .prop_map(|(t, s)| ReqSpec::CopyConfig { target: Some(t), source: Some(s) }),
        3 => prop_oneof![ds().prop_map(DsOrUrl::Ds), url_strategy().prop_map(DsOrUrl::Url)]
            .prop_map(|t| ReqSpec::DeleteConfig { target: Some(t) }),
        2 => ds().prop_map(|t| ReqSpec::Lock { target: Some(t) }),
        2 => ds().prop_map(|t| ReqSpec::Unlock { target: Some(t) }),
        1 => prop_oneof![Just(0u32), Just(4711u32), 1u32..100].prop_map(|i| ReqSpec::KillSession { id: Some(i) }),
        6 => (prop::option::of(any::<bool>()), prop::option::of(prop_oneof![Just(600u64), 1u64..5000]), tok_opt(), tok_opt(), 0u8..24)
            .prop_map(|(confirmed, confirm_timeout, persist, persist_id, order)| ReqSpec::Commit {
                confirmed, confirm_timeout, persist, persist_id, order }),
        2 => tok_opt().prop_map(|persist_id| ReqSpec::CancelCommit { persist_id }),
        1 => Just(ReqSpec::DiscardChanges),
        3 => prop_oneof![ds().prop_map(DsOrCfg::Ds), Just(DsOrCfg::Config("<top/>".into()))]
            .prop_map(|s| ReqSpec::Validate { source: Some(s) }),
        1 => Just(ReqSpec::CloseSession),
        1 => prop_oneof![Just(OpenTarget::Private), Just(OpenTarget::EphemeralDefault), Just(OpenTarget::EphemeralNamed("bgpfu".into()))]
            .prop_map(|t| ReqSpec::OpenConfiguration { target: Some(t) }),
        1 => Just(ReqSpec::CloseConfiguration),
        1 => Just(ReqSpec::LockConfiguration),
        1 => Just(ReqSpec::UnlockConfiguration),
        1 => (prop::option::of(any::<bool>()), prop::option::of(Just(AtSpec::Reboot)), prop::option::of(prop::option::of(1u64..5000)))
            .prop_map(|(check, at, confirm)| ReqSpec::CommitConfiguration { check, at, confirm, log: None, sync: None }),
        1 => prop_oneof![Just(LoadSrc::Rescue), Just(LoadSrc::Xml("<configuration/>".into(), 0)), Just(LoadSrc::Text("x;".into(), 4))]
            .prop_map(|s| ReqSpec::LoadConfiguration { src: Some(s) }),
    ]
    .boxed()
}

fn case_strategy() -> BoxedStrategy<Case> {
    (
        spec_strategy(),
        0u8..4,
        any::<u16>(),
        any::<u8>(),
        any::<bool>(),
        any::<bool>(),
        any::<u16>(),
    )
        .prop_map(|(spec, mode, rnd_std, rnd_sch, base11, rnd_url, drop)| {
            let reqs = request_requirements(&spec)
                .map(|(h, _)| h)
                .unwrap_or_default();
            let mut minimal = CapSet {
                std: 0,
                base11,
                url: false,
                schemes: 0,
                order: (drop >> 8) as u8,
                // in a third of the cases: look-alikes of capabilities (also of missing ones)
                lookalikes: if rnd_sch % 3 == 0 { (rnd_std >> 3) | ((rnd_sch as u16 & 3) << 12) } else { 0 },
            };
            for r in &reqs {
                minimal.add(r);
            }
            let (caps, mode) = match mode {
                0 => (minimal, "minimal".to_string()),
                1 => {
                    let mut c = minimal;
                    let mut n = 0;
                    for _ in 0..10 {
                        n += 1;
                    }
                    let _ = n;
                    let removed = c.remove_nth(pick_idx(drop, 16));
                    (
                        c,
                        if removed.is_some() {
                            "minimal-minus-one".to_string()
                        } else {
                            "minimal".to_string()
                        },
                    )
                }
                2 => {
                    // minimal plus random others
                    let mut c = minimal;
                    c.std |= rnd_std & 0x3ff;
                    if rnd_url {
                        c.url = true;
                        c.schemes |= rnd_sch & 0x1f;
                    }
                    (c, "superset".to_string())
                }
                _ => (
                    CapSet {
                        std: rnd_std & 0x3ff,
                        base11,
                        url: rnd_url,
                        schemes: rnd_sch & 0x1f,
                        order: (drop >> 8) as u8,
                        lookalikes: if rnd_sch % 3 == 0 { (rnd_std >> 3) | ((rnd_sch as u16 & 3) << 12) } else { 0 },
                    },
                    "random".to_string(),
                ),
            };
            Case { spec, caps, mode }
        })
        .boxed()
}

pub struct C09;

impl Prop for C09 {
    type Case = Case;
    fn name(&self) -> &'static str {
        "capability-matrix"
    }
    fn rule(&self) -> String {
        "(server capability set, request) pairs: every operation with every combination of its \
         builder calls (datastores as source/target/lock target, filter kind, URL scheme, \
         test/error/default option, confirmed/timeout/persist/persist-id, Junos operations); the \
         capability set is the request's minimal permitting set, that set minus one element, a \
         random superset of it, or a random subset of {10 capabilities} x {url with 2^5 scheme \
         sets} x {base:1.1}. Non-trivial = the set is exactly on the permit/deny boundary (minimal, \
         or minimal minus one); distinct by (set, request)"
            .into()
    }
    fn cases(&self, tier: Tier) -> u32 {
        tier.pick(120_000, 4_000_000)
    }
    fn strategy(&self, _tier: Tier) -> BoxedStrategy<Case> {
        case_strategy()
    }
    fn check(&self, case: &Case) -> Obs {
        let mut obs = Obs::default();
        let spec = &case.spec;
        let caps = &case.caps;
        let op = spec.op_name();
        obs.class(format!("op:{op}"));
        obs.class(format!("caps:{}", case.mode));
        obs.nontrivial = case.mode.starts_with("minimal");
        let (sess, wire) = establish_caps(&caps.uris());
        let before = wire.sent_count();
        let (_s, request, out) = run_req(sess, &wire, spec, |_| Vec::new());
        let sent = wire.sent_count() - before;
        let refused = matches!(out, Outcome::Refused(_));
        if refused && sent != 0 {
            obs.fail(
                format!("refused-but-sent:{op}"),
                format!("call failed locally ({out:?}) but {sent} message(s) were sent"),
            );
        }
        if !refused && sent != 1 {
            obs.fail(
                format!("accepted-but-not-one-message:{op}"),
                format!("call accepted but {sent} messages were sent"),
            );
        }
        // (a) wire content
        if sent >= 1 {
            obs.class("sent");
            let s = String::from_utf8_lossy(&request);
            let body = s.strip_suffix(MARKER).unwrap_or(&s);
            match parse_document(body) {
                Err(e) => obs.fail(
                    format!("harness:unparseable-request:{op}"),
                    format!("cannot parse request ({e}): {body}"),
                ),
                Ok(root) => {
                    for el in root.elems() {
                        for r in wire_requirements(el) {
                            if !caps.satisfies(&r) {
                                let what = match &r {
                                    Req::Cap(c) => format!("requires {c}"),
                                    Req::Any(c) => format!("requires one of {c:?}"),
                                    Req::Scheme(s) => format!("requires :url with scheme {s}"),
                                    Req::Never(w) => (*w).to_string(),
                                };
                                let sig = match &r {
                                    Req::Cap(c) => (*c).rsplit(':').nth(1).unwrap_or(c).to_string(),
                                    Req::Any(c) => c[0].rsplit(':').nth(1).unwrap_or(c[0]).to_string(),
                                    Req::Scheme(_) => "url-scheme".to_string(),
                                    Req::Never(w) => w.replace(' ', "-"),
                                };
                                obs.fail(
                                    format!("sent-without-capability:{op}:{sig}"),
                                    format!(
                                        "request on the wire {what}, which the server did not advertise {:?}: {body}",
                                        caps.uris()
                                    ),
                                );
                            }
                        }
                    }
                }
            }
        } else {
            obs.class("refused");
        }
        // (b) converse
        match request_requirements(spec) {
            None => obs.class("converse:not-judged(invalid-for-other-reasons)"),
            Some((hard, soft)) => {
                let hard_ok = hard.iter().all(|r| caps.satisfies(r));
                let soft_ok = soft.iter().all(|r| caps.satisfies(r));
                if hard_ok && soft_ok {
                    obs.class("converse:permitted");
                    if refused {
                        obs.fail(
                            format!("permitted-request-refused:{op}"),
                            format!(
                                "{spec:?} is within {:?} but the call failed locally: {out:?}",
                                caps.uris()
                            ),
                        );
                    }
                } else if hard_ok {
                    obs.class("converse:either-way(default-valued parameter)");
                } else {
                    obs.class("converse:forbidden");
                }
            }
        }
        obs
    }
    fn assumptions(&self) -> Vec<String> {
        vec![
            "capability table transcribed from RFC 6241 section 8 and the if-feature statements of ietf-netconf.yang; Junos operations require http://xml.juniper.net/netconf/junos/1.0".into(),
            "an explicit builder call that sets a parameter to a value that is not serialised (default test-option, confirmed=false, default timeout, persist=None) is accepted either way".into(),
            "requests that are invalid for reasons other than capabilities (persist without confirmed, kill-session of the own or of session 0, missing required parameters) are only judged in the wire direction".into(),
        ]
    }
}

pub fn property() -> Property {
    Property {
        id: "C09",
        level: "exploration",
        parts: vec![Box::new(PropPart(C09))],
    }
}
