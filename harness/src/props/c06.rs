//! C06 — message boundaries do not depend on how the byte stream is segmented.
//!
//! Engine E: the real TLS, SSH and local-CLI transports on loopback against scripted peers that
//! cut the reply stream at generated positions (with forced coverage of the five positions inside
//! every `]]>]]>`), put several messages into one unit, and spread one message over many units.
//! Two oracles: content (every caller gets exactly its tagged payload) and promptness (a reply is
//! delivered before the peer sends any further traffic — the peer "nudges" only when the client
//! has not made progress, and records when it did).

use std::time::Duration;

use netconf::{
    message::rpc::operation::{Builder as _, GetConfig, Opaque},
    transport::Transport,
    Session,
};
use proptest::prelude::*;
use serde::{Deserialize, Serialize};
use tokio::net::TcpListener;

use crate::{
    core::{pick_idx, Obs, Prop, PropPart, Property, Tier},
    net::{self, PreClose},
    ops::Ds,
    script::{hello_bytes, mono_ns, reply_message, Marks, Script, Step, MARKER},
    sess::{BASE10, CAP_CANDIDATE},
};

#[derive(Debug, Clone, Copy, PartialEq, Eq, Serialize, Deserialize)]
pub enum Tr {
    Tls,
    Ssh,
    Local,
}

pub const NUDGE_MS: u64 = 1500;

#[derive(Debug, Clone, Serialize, Deserialize)]
pub struct Round {
    /// payload variant per pipelined request
    pub payloads: Vec<u8>,
    /// cut positions as fractions of the reply stream
    pub cuts: Vec<u16>,
    /// for message i (index into payloads): split its delimiter after this many bytes (1..=5)
    pub delimiter_splits: Vec<(u8, u8)>,
    pub pause_ms: u8,
    /// extra payload bytes per message (missing = 0)
    #[serde(default)]
    pub pads: Vec<u16>,
    /// (message index, e, delta): pad that message so that it *ends* at byte `2^(10+e) + delta`
    /// of everything the server has sent on the connection (receive buffers are allocated and
    /// grown in powers of two: message ends next to such an offset are where a buffer runs full)
    #[serde(default)]
    pub align: Option<(u8, u8, i8)>,
}

#[derive(Debug, Clone, Serialize, Deserialize)]
pub struct Case {
    pub transport: Tr,
    /// split the server hello's delimiter after this many bytes (0 = not split)
    pub hello_split: u8,
    pub hello_cuts: Vec<u16>,
    pub rounds: Vec<Round>,
}

const LOOKALIKES: &[&str] = &[
    "plain",
    "]]&gt;]]&gt;",
    "<x a=\"]]>]]\"/>",
    "]]",
    "<!-- ]] -->",
    "]]&gt;]]",
    "<y><![CDATA[]] ]]></y>",
];

fn payload(r: usize, m: usize, variant: u8, pad: usize) -> String {
    format!(
        "<t xmlns=\"urn:verif\" r=\"{r}\" m=\"{m}\">{}<p>{}</p></t>",
        LOOKALIKES[variant as usize % LOOKALIKES.len()],
        "x".repeat(pad)
    )
}

/// offsets of the delimiters' first bytes in a stream of framed messages
fn delimiter_offsets(stream: &[u8]) -> Vec<usize> {
    let mut v = Vec::new();
    let mut i = 0;
    while i + MARKER.len() <= stream.len() {
        if &stream[i..i + MARKER.len()] == MARKER {
            v.push(i);
            i += MARKER.len();
        } else {
            i += 1;
        }
    }
    v
}

pub struct Plan {
    pub script: Script,
    /// per round: expected payload per request
    pub expected: Vec<Vec<String>>,
    pub in_delimiter_splits: usize,
    pub multi_message_units: usize,
    /// message ends within 8 bytes of a power of two (>= 1024) of the server's byte stream
    pub ends_at_buffer_boundary: usize,
    /// everything the peer writes when nothing stalls: hello + the reply streams of all rounds
    pub server_stream: Vec<u8>,
}

pub fn build_plan(case: &Case) -> Plan {
    let mut steps = Vec::new();
    // hello, possibly cut
    let hello = hello_bytes(&[BASE10, CAP_CANDIDATE], 77);
    let mut cuts: Vec<usize> = case
        .hello_cuts
        .iter()
        .map(|c| pick_idx(*c, hello.len()))
        .collect();
    let mut in_delim = 0;
    if case.hello_split > 0 {
        cuts.push(hello.len() - MARKER.len() + (case.hello_split as usize % 6).max(1).min(5));
        in_delim += 1;
    }
    cuts.retain(|c| *c > 0 && *c < hello.len());
    cuts.sort_unstable();
    cuts.dedup();
    let mut start = 0;
    for c in cuts.iter().chain(std::iter::once(&hello.len())) {
        steps.push(Step::Write(hello[start..*c].to_vec()));
        if *c < hello.len() {
            steps.push(Step::PauseMs(3));
        }
        start = *c;
    }
    // the client hello, then the rounds
    let mut total_msgs = 1;
    let mut expected = Vec::new();
    let mut next_id = 1usize;
    let mut multi = 0;
    let mut at_boundary = 0;
    // bytes the server has written so far (nudges, sent only after a stall, are not counted)
    let mut offset = hello.len();
    let mut server_stream = hello.clone();
    for (r, round) in case.rounds.iter().enumerate() {
        total_msgs += round.payloads.len();
        steps.push(Step::AwaitWithNudge {
            n: total_msgs,
            nudge_ms: NUDGE_MS,
        });
        let mut pads: Vec<usize> = (0..round.payloads.len())
            .map(|m| round.pads.get(m).copied().unwrap_or(0) as usize)
            .collect();
        let render = |pads: &[usize]| -> (Vec<String>, Vec<u8>, Vec<usize>) {
            let payloads: Vec<String> = round
                .payloads
                .iter()
                .enumerate()
                .map(|(m, v)| payload(r, m, *v, pads[m]))
                .collect();
            let mut stream = Vec::new();
            let mut ends = Vec::new();
            for (k, p) in payloads.iter().enumerate() {
                stream.extend_from_slice(&reply_message(&(next_id + k).to_string(), p));
                ends.push(stream.len());
            }
            (payloads, stream, ends)
        };
        if let Some((mi, e, delta)) = round.align {
            let mi = mi as usize % pads.len();
            let (_, _, ends) = render(&pads);
            let end = offset + ends[mi];
            let mut boundary = 1usize << (10 + (e as usize % 6));
            while (boundary as i64 + delta as i64) < end as i64 {
                boundary <<= 1;
            }
            pads[mi] += (boundary as i64 + delta as i64 - end as i64) as usize;
        }
        // predict the stream to place the cuts
        let (payloads, stream, ends) = render(&pads);
        next_id += payloads.len();
        at_boundary += ends
            .iter()
            .filter(|e| {
                let abs = offset + **e;
                abs >= 1016 && {
                    let p = abs.next_power_of_two();
                    p - abs <= 8 || abs - p / 2 <= 8
                }
            })
            .count();
        offset += stream.len();
        server_stream.extend_from_slice(&stream);
        let delims = delimiter_offsets(&stream);
        let mut cuts: Vec<usize> = round
            .cuts
            .iter()
            .map(|c| pick_idx(*c, stream.len()))
            .collect();
        for (mi, off) in &round.delimiter_splits {
            if let Some(d) = delims.get(*mi as usize % delims.len().max(1)) {
                cuts.push(d + (*off as usize % 6).max(1).min(5));
            }
        }
        cuts.retain(|c| *c > 0 && *c < stream.len());
        cuts.sort_unstable();
        cuts.dedup();
        in_delim += cuts
            .iter()
            .filter(|c| delims.iter().any(|d| **c > *d && **c < *d + MARKER.len()))
            .count();
        // units that contain at least two delimiters (ends of messages)
        let mut s = 0;
        for c in cuts.iter().chain(std::iter::once(&stream.len())) {
            let ends = delims
                .iter()
                .filter(|d| **d + MARKER.len() > s && **d + MARKER.len() <= *c)
                .count();
            if ends >= 2 {
                multi += 1;
            }
            s = *c;
        }
        steps.push(Step::Reply {
            payloads: payloads.clone(),
            cuts,
            pause_ms: round.pause_ms as u64 % 8,
        });
        steps.push(Step::Mark(format!("written-{r}")));
        expected.push(payloads);
    }
    steps.push(Step::AwaitCloseWithNudge {
        nudge_ms: NUDGE_MS,
        max_ms: 8000,
    });
    Plan {
        script: Script { steps },
        expected,
        in_delimiter_splits: in_delim,
        multi_message_units: multi,
        ends_at_buffer_boundary: at_boundary,
        server_stream,
    }
}

#[derive(Debug, Clone)]
pub struct ReplyObs {
    pub round: usize,
    pub index: usize,
    pub result: Result<String, String>,
    pub at_ns: u64,
}

#[derive(Debug, Default)]
pub struct ClientObs {
    pub established: Option<Result<(), String>>,
    pub established_at_ns: u64,
    pub replies: Vec<ReplyObs>,
    /// (C18) when the first reply future was dropped
    pub dropped_at_ns: Option<u64>,
    /// sizes of the client's reads from the transport, in order (TLS and local CLI; from the
    /// client's own TRACE records)
    pub read_sizes: Vec<usize>,
}

/// the rounds of a case on an established session
pub async fn run_rounds<T: Transport + 'static>(
    sess: &mut Session<T>,
    rounds: &[Round],
    obs: &mut ClientObs,
) {
    let wait = Duration::from_millis(2 * NUDGE_MS + 1500);
    for (r, round) in rounds.iter().enumerate() {
        let mut futs = Vec::new();
        for m in 0..round.payloads.len() {
            match sess
                .rpc::<GetConfig<Opaque>, _>(|b| b.source(Ds::Running.to_lib())?.finish())
                .await
            {
                Ok(f) => futs.push((m, f)),
                Err(e) => obs.replies.push(ReplyObs {
                    round: r,
                    index: m,
                    result: Err(format!("send failed: {e:?}")),
                    at_ns: mono_ns(),
                }),
            }
        }
        let results = futures::future::join_all(futs.into_iter().map(|(m, f)| async move {
            let res = tokio::time::timeout(wait, f).await;
            let at = mono_ns();
            (m, res, at)
        }))
        .await;
        let mut stop = false;
        for (m, res, at) in results {
            let result = match res {
                Err(_) => {
                    stop = true;
                    Err("TIMEOUT".to_string())
                }
                Ok(Ok(o)) => Ok(o.to_string()),
                Ok(Err(e)) => Err(format!("{e:?}")),
            };
            obs.replies.push(ReplyObs {
                round: r,
                index: m,
                result,
                at_ns: at,
            });
        }
        if stop {
            break;
        }
    }
}

/// Run one case on its transport; returns what the client saw and the peer's marks.
pub fn run_case(case: &Case, plan: &Plan) -> Result<(ClientObs, Marks), String> {
    let (c, script, expected) = (case.clone(), plan.script.clone(), plan.expected.clone());
    let limit = Duration::from_secs(40 + 10 * case.rounds.len() as u64);
    match crate::core::with_watchdog(limit, move || {
        let plan = Plan {
            script,
            expected,
            in_delimiter_splits: 0,
            multi_message_units: 0,
            ends_at_buffer_boundary: 0,
            server_stream: Vec::new(),
        };
        run_case_inner(&c, &plan)
    }) {
        Some(r) => r,
        None => Ok((
            ClientObs {
                established: Some(Err("TIMEOUT".into())),
                ..ClientObs::default()
            },
            Marks {
                error: Some("the client thread never returned (it loops without yielding)".into()),
                ..Marks::default()
            },
        )),
    }
}

fn run_case_inner(case: &Case, plan: &Plan) -> Result<(ClientObs, Marks), String> {
    run_session(
        case.transport,
        &plan.script,
        ClientPlan::Rounds(case.rounds.clone()),
    )
}

/// what the client side of a session on a real transport does
#[derive(Debug, Clone)]
pub enum ClientPlan {
    /// C06: rounds of pipelined requests, all awaited
    Rounds(Vec<Round>),
    /// C18: `k` pipelined requests; the first reply future - the one reading from the transport -
    /// is awaited alone for `drop_after_ms` and then dropped; the others and one further request
    /// must complete with their own replies
    DropReader { k: usize, drop_after_ms: u64 },
    /// C06: one request, then - `gap_ms` later, while the peer has written only the first part of
    /// its reply - a second request; both replies must come back intact
    Staggered { gap_ms: u64 },
}

async fn run_client<T: Transport + 'static>(
    sess: &mut Session<T>,
    plan: &ClientPlan,
    obs: &mut ClientObs,
) {
    match plan {
        ClientPlan::Rounds(rounds) => run_rounds(sess, rounds, obs).await,
        ClientPlan::DropReader { k, drop_after_ms } => {
            run_drop_reader(sess, *k, *drop_after_ms, obs).await;
        }
        ClientPlan::Staggered { gap_ms } => {
            let wait = Duration::from_millis(6000);
            let mut futs = Vec::new();
            for m in 0..2 {
                if m == 1 {
                    tokio::time::sleep(Duration::from_millis(*gap_ms)).await;
                }
                match sess
                    .rpc::<GetConfig<Opaque>, _>(|b| b.source(Ds::Running.to_lib())?.finish())
                    .await
                {
                    Ok(f) => futs.push((m, f)),
                    Err(e) => obs.replies.push(ReplyObs {
                        round: 0,
                        index: m,
                        result: Err(format!("send failed: {e:?}")),
                        at_ns: mono_ns(),
                    }),
                }
            }
            let results = futures::future::join_all(futs.into_iter().map(|(m, f)| async move {
                (m, tokio::time::timeout(wait, f).await, mono_ns())
            }))
            .await;
            for (m, res, at) in results {
                obs.replies.push(ReplyObs {
                    round: 0,
                    index: m,
                    result: match res {
                        Err(_) => Err("TIMEOUT".to_string()),
                        Ok(Ok(o)) => Ok(o.to_string()),
                        Ok(Err(e)) => Err(format!("{e:?}")),
                    },
                    at_ns: at,
                });
            }
        }
    }
}

async fn run_drop_reader<T: Transport + 'static>(
    sess: &mut Session<T>,
    k: usize,
    drop_after_ms: u64,
    obs: &mut ClientObs,
) {
    let wait = Duration::from_millis(6000);
    let mut futs = Vec::new();
    for m in 0..k {
        match sess
            .rpc::<GetConfig<Opaque>, _>(|b| b.source(Ds::Running.to_lib())?.finish())
            .await
        {
            Ok(f) => futs.push((m, f)),
            Err(e) => obs.replies.push(ReplyObs {
                round: 0,
                index: m,
                result: Err(format!("send failed: {e:?}")),
                at_ns: mono_ns(),
            }),
        }
    }
    if futs.is_empty() {
        return;
    }
    // the first future reads from the transport; abandon it after a while
    let (m0, first) = futs.remove(0);
    match tokio::time::timeout(Duration::from_millis(drop_after_ms), first).await {
        Ok(r) => obs.replies.push(ReplyObs {
            round: 0,
            index: m0,
            result: r.map(|o| o.to_string()).map_err(|e| format!("{e:?}")),
            at_ns: mono_ns(),
        }),
        Err(_) => obs.dropped_at_ns = Some(mono_ns()),
    }
    let results = futures::future::join_all(futs.into_iter().map(|(m, f)| async move {
        let res = tokio::time::timeout(wait, f).await;
        (m, res, mono_ns())
    }))
    .await;
    for (m, res, at) in results {
        obs.replies.push(ReplyObs {
            round: 0,
            index: m,
            result: match res {
                Err(_) => Err("TIMEOUT".to_string()),
                Ok(Ok(o)) => Ok(o.to_string()),
                Ok(Err(e)) => Err(format!("{e:?}")),
            },
            at_ns: at,
        });
    }
    // the session remains usable
    let extra = match sess
        .rpc::<GetConfig<Opaque>, _>(|b| b.source(Ds::Running.to_lib())?.finish())
        .await
    {
        Ok(f) => match tokio::time::timeout(wait, f).await {
            Err(_) => Err("TIMEOUT".to_string()),
            Ok(Ok(o)) => Ok(o.to_string()),
            Ok(Err(e)) => Err(format!("{e:?}")),
        },
        Err(e) => Err(format!("send failed: {e:?}")),
    };
    obs.replies.push(ReplyObs {
        round: 1,
        index: 0,
        result: extra,
        at_ns: mono_ns(),
    });
}

/// Collects the sizes of the client's own reads from its TRACE records ("read N bytes. buffer
/// length is M", emitted by the TLS and local-CLI receive loops after every `read_buf`), so that
/// the evidence can say where the byte stream was *actually* split, not where the peer intended.
#[derive(Clone, Default)]
struct ReadSizes(std::sync::Arc<std::sync::Mutex<Vec<usize>>>);

impl<S: tracing::Subscriber> tracing_subscriber::Layer<S> for ReadSizes {
    fn on_event(&self, event: &tracing::Event<'_>, _ctx: tracing_subscriber::layer::Context<'_, S>) {
        if !event.metadata().target().starts_with("netconf::transport") {
            return;
        }
        struct V(Option<usize>);
        impl tracing::field::Visit for V {
            fn record_debug(&mut self, field: &tracing::field::Field, value: &dyn std::fmt::Debug) {
                if field.name() == "message" {
                    let m = format!("{value:?}");
                    if let Some(rest) = m.strip_prefix("read ") {
                        self.0 = rest.split(' ').next().and_then(|n| n.parse().ok());
                    }
                }
            }
        }
        // only the message field is looked at; the buffer dumps of the other records are never
        // formatted
        if event.metadata().fields().field("message").is_some()
            && event.metadata().fields().len() == 1
        {
            let mut v = V(None);
            event.record(&mut v);
            if let Some(n) = v.0 {
                self.0.lock().unwrap().push(n);
            }
        }
    }
}

/// one session on a real transport: the scripted peer on one side, `client_plan` on the other
pub fn run_session(
    transport: Tr,
    script: &Script,
    client_plan: ClientPlan,
) -> Result<(ClientObs, Marks), String> {
    let rt = tokio::runtime::Builder::new_multi_thread()
        .worker_threads(2)
        .enable_all()
        .build()
        .map_err(|e| format!("runtime: {e}"))?;
    let script = script.clone();
    let reads = ReadSizes::default();
    let subscriber = {
        use tracing_subscriber::layer::SubscriberExt;
        tracing_subscriber::registry().with(reads.clone())
    };
    // the client half of the session runs inside `block_on`, i.e. on this thread: a thread-local
    // subscriber sees the records of the TLS / local-CLI receive loops (SSH reads in a spawned
    // task; its units are exact anyway)
    let _guard = tracing::subscriber::set_default(subscriber);
    let out = rt.block_on(async move {
        let mut obs = ClientObs::default();
        let est_wait = Duration::from_millis(2 * NUDGE_MS + 2000);
        match transport {
            Tr::Tls => {
                let listener = net::bind_local().map_err(|e| e.to_string())?;
                let port = listener.local_addr().map_err(|e| e.to_string())?.port();
                let acceptor = net::tls_acceptor("server.crt", "server.key");
                let server = tokio::spawn(net::tls_server(listener, acceptor, script, PreClose::None));
                let dir = net::pki_dir();
                let ca = net::read_certs(&dir.join("ca.crt")).remove(0);
                let cert = net::read_certs(&dir.join("client-rsa.crt")).remove(0);
                let key = net::read_key(&dir.join("client-rsa.pk8.key")).ok_or("client key")?;
                let est = tokio::time::timeout(
                    est_wait,
                    Session::tls(("127.0.0.1", port), "localhost", ca, cert, key),
                )
                .await;
                obs.established_at_ns = mono_ns();
                match est {
                    Ok(Ok(mut sess)) => {
                        obs.established = Some(Ok(()));
                        run_client(&mut sess, &client_plan, &mut obs).await;
                        drop(sess);
                    }
                    Ok(Err(e)) => obs.established = Some(Err(format!("{e:?}"))),
                    Err(_) => obs.established = Some(Err("TIMEOUT".into())),
                }
                let marks = tokio::time::timeout(Duration::from_secs(12), server)
                    .await
                    .ok()
                    .and_then(Result::ok)
                    .unwrap_or_default();
                Ok::<_, String>((obs, marks))
            }
            Tr::Ssh => {
                let listener = net::bind_local().map_err(|e| e.to_string())?;
                let port = listener.local_addr().map_err(|e| e.to_string())?.port();
                let server = tokio::spawn(net::ssh_server(
                    listener,
                    net::ssh_config(),
                    "secret-pw".into(),
                    script,
                    PreClose::None,
                ));
                let est = tokio::time::timeout(
                    est_wait,
                    Session::ssh(
                        ("127.0.0.1", port),
                        "verif".to_string(),
                        "secret-pw".parse().map_err(|_| "password")?,
                    ),
                )
                .await;
                obs.established_at_ns = mono_ns();
                match est {
                    Ok(Ok(mut sess)) => {
                        obs.established = Some(Ok(()));
                        run_client(&mut sess, &client_plan, &mut obs).await;
                        drop(sess);
                    }
                    Ok(Err(e)) => obs.established = Some(Err(format!("{e:?}"))),
                    Err(_) => obs.established = Some(Err("TIMEOUT".into())),
                }
                let marks = tokio::time::timeout(Duration::from_secs(12), server)
                    .await
                    .ok()
                    .and_then(Result::ok)
                    .unwrap_or_default();
                Ok((obs, marks))
            }
            Tr::Local => {
                let files = net::prepare_local(&script, "c06");
                let est = {
                    let _guard = net::LOCAL_SPAWN.lock().await;
                    std::env::set_var("BGPFU_VERIF_CLI_PATH", net::fake_cli_path());
                    std::env::set_var("FAKE_CLI_SCRIPT", &files.script);
                    std::env::set_var("FAKE_CLI_MARKS", &files.marks);
                    tokio::time::timeout(est_wait, Session::junos_local()).await
                };
                obs.established_at_ns = mono_ns();
                match est {
                    Ok(Ok(mut sess)) => {
                        obs.established = Some(Ok(()));
                        run_client(&mut sess, &client_plan, &mut obs).await;
                        drop(sess);
                    }
                    Ok(Err(e)) => obs.established = Some(Err(format!("{e:?}"))),
                    Err(_) => obs.established = Some(Err("TIMEOUT".into())),
                }
                let marks_path = files.marks.clone();
                let marks = tokio::task::spawn_blocking(move || net::read_marks(&marks_path))
                    .await
                    .unwrap_or_default();
                let _ = std::fs::remove_file(&files.script);
                let _ = std::fs::remove_file(&files.marks);
                Ok((obs, marks))
            }
        }
    });
    rt.shutdown_timeout(Duration::from_millis(300));
    let sizes = reads.0.lock().unwrap().clone();
    out.map(|(mut obs, marks)| {
        obs.read_sizes = sizes;
        (obs, marks)
    })
}

pub fn judge(case: &Case, plan: &Plan, client: &ClientObs, marks: &Marks, obs: &mut Obs) {
    let t = format!("{:?}", case.transport).to_lowercase();
    let mark = |name: &str| marks.marks.iter().find(|(n, _)| n == name).map(|(_, t)| *t);
    // establishment = delivery of the hello
    let first_nudge = marks
        .marks
        .iter()
        .filter(|(n, _)| n.starts_with("nudge-"))
        .map(|(_, t)| *t)
        .min();
    match &client.established {
        Some(Ok(())) => {
            if let Some(n) = first_nudge {
                if client.established_at_ns > n && case.rounds.is_empty() {
                    // (with rounds the first nudge belongs to round 0 unless it precedes it)
                }
                let nudge_for_hello = mark(&format!("nudge-{}", 1 + case.rounds.first().map_or(0, |r| r.payloads.len())));
                if let Some(nh) = nudge_for_hello {
                    if client.established_at_ns > nh && client.replies.is_empty() {
                        obs.fail(
                            format!("{t}:hello-held-until-further-traffic"),
                            format!("the session was only established after the peer sent further traffic; hello split {}", case.hello_split),
                        );
                    }
                }
            }
        }
        Some(Err(e)) => {
            let sig = if e == "TIMEOUT" {
                format!("{t}:hello-never-delivered")
            } else {
                format!("{t}:establishment-failed")
            };
            obs.fail(
                sig,
                format!(
                    "session establishment failed ({e}) although the peer wrote a complete hello (delimiter split after {} bytes, cuts {:?}); peer: {:?}",
                    case.hello_split, case.hello_cuts, marks.error
                ),
            );
            return;
        }
        None => {
            obs.fail("harness-sanity:no-establishment-result", "".to_string());
            return;
        }
    }
    // replies
    let total: usize = case.rounds.iter().map(|r| r.payloads.len()).sum();
    if client.replies.len() < total {
        // a timed-out round stops the case; the missing ones are reported through the timeout
    }
    for (r, round) in case.rounds.iter().enumerate() {
        // the nudge that would follow this round is named after the number of messages the peer
        // waits for next
        let upto: usize = 1 + case.rounds[..=r].iter().map(|x| x.payloads.len()).sum::<usize>();
        let next_wait = if r + 1 < case.rounds.len() {
            format!("nudge-{}", upto + case.rounds[r + 1].payloads.len())
        } else {
            "nudge-close".to_string()
        };
        let nudge_at = mark(&next_wait);
        for m in 0..round.payloads.len() {
            let Some(o) = client.replies.iter().find(|o| o.round == r && o.index == m) else {
                continue;
            };
            let want = &plan.expected[r][m];
            let detail = format!(
                "round {r} reply {m} of {}: cuts {:?} delimiter splits {:?}",
                round.payloads.len(),
                round.cuts,
                round.delimiter_splits
            );
            match &o.result {
                Ok(got) if got == want => {
                    if let Some(n) = nudge_at {
                        if o.at_ns > n {
                            obs.fail(
                                format!("{t}:reply-held-until-further-traffic"),
                                format!("{detail}: delivered only after the peer sent further traffic ({} ms after the nudge)", (o.at_ns - n) / 1_000_000),
                            );
                        }
                    }
                }
                Ok(got) => obs.fail(
                    format!("{t}:wrong-content"),
                    format!("{detail}: caller received {got:?}, the peer sent {want:?}"),
                ),
                Err(e) if e == "TIMEOUT" => obs.fail(
                    format!("{t}:reply-never-delivered"),
                    format!("{detail}: the reply was completely written by the peer (mark written-{r}: {:?}) but never delivered, not even after further traffic", mark(&format!("written-{r}"))),
                ),
                Err(e) => obs.fail(
                    format!("{t}:reply-lost-or-damaged"),
                    format!("{detail}: caller received error {e} instead of {want:?}"),
                ),
            }
        }
    }
    if let Some(e) = &marks.error {
        if obs.failures.is_empty() {
            obs.fail(format!("{t}:peer-error"), format!("scripted peer reports: {e}"));
        }
    }
}

pub struct C06;

fn round_strategy() -> impl Strategy<Value = Round> {
    (
        // how many requests are pipelined: mostly a few; sometimes more than any queue between a
        // transport's reader task and the session is likely to hold (the SSH transport's is 32)
        prop_oneof![
            16 => prop::collection::vec(0u8..LOOKALIKES.len() as u8, 1..5),
            3 => prop::collection::vec(0u8..LOOKALIKES.len() as u8, 5..20),
            1 => prop::collection::vec(0u8..LOOKALIKES.len() as u8, 33..80),
        ],
        prop::collection::vec(any::<u16>(), 0..6),
        prop::collection::vec((0u8..5, 1u8..6), 0..4),
        0u8..6,
        prop::collection::vec(
            prop_oneof![4 => Just(0u16), 4 => 0u16..300, 1 => 300u16..3000, 1 => 3000u16..20000],
            0..5,
        ),
        prop::option::weighted(0.4, (0u8..5, 0u8..5, -8i8..=8)),
    )
        .prop_map(|(payloads, cuts, delimiter_splits, pause_ms, pads, align)| Round {
            payloads,
            cuts,
            delimiter_splits,
            pause_ms,
            pads,
            align,
        })
}

pub fn case_strategy() -> BoxedStrategy<Case> {
    (
        prop_oneof![Just(Tr::Tls), Just(Tr::Ssh), Just(Tr::Local)],
        prop_oneof![2 => Just(0u8), 3 => 1u8..6],
        prop::collection::vec(any::<u16>(), 0..3),
        prop::collection::vec(round_strategy(), 1..4),
    )
        .prop_map(|(transport, hello_split, hello_cuts, rounds)| Case {
            transport,
            hello_split,
            hello_cuts,
            rounds,
        })
        .boxed()
}

impl Prop for C06 {
    type Case = Case;
    fn max_shrink_iters(&self) -> u32 {
        150
    }
    fn name(&self) -> &'static str {
        "chunk-plans"
    }
    fn rule(&self) -> String {
        "a session on a real loopback transport (TLS via tokio-rustls, SSH via russh with exact \
         channel-data packets, local CLI via a child process) whose peer writes the hello and, per \
         round, the concatenated replies to 1..4 (sometimes up to 79) pipelined tagged get-configs in units cut at \
         generated positions plus forced cuts at offsets 1..5 inside chosen `]]>]]>` delimiters, \
         with 0..7 ms pauses; payloads contain delimiter look-alikes and 0..20000 padding bytes, and \
         in 40 % of the rounds one message is padded so that it ends within 8 bytes of a power-of-two \
         offset (>= 1024) of the peer's byte stream (where a receive buffer runs full). The peer sends further \
         traffic (a newline) only if the client has not progressed for 1.5 s and records when. \
         Oracle: every caller receives exactly its payload (content) before any such nudge \
         (promptness). Non-trivial = at least one cut inside a delimiter, a unit holding two or \
         more message ends, or a message ending next to a power-of-two offset; distinct by case. \
         The classes `achieved:*` count the sessions in which the client's own reads (sizes taken \
         from its TRACE records, TLS and local CLI) really ended inside a delimiter / really held \
         several message ends"
            .into()
    }
    fn cases(&self, tier: Tier) -> u32 {
        tier.pick(450, 30_000)
    }
    fn max_threads(&self) -> usize {
        6
    }
    fn fixed_cases(&self) -> Vec<Case> {
        // every delimiter offset, for the hello and for a reply, two messages in one unit, on
        // every transport
        let mut out = Vec::new();
        for tr in [Tr::Tls, Tr::Ssh, Tr::Local] {
            for off in 1u8..6 {
                out.push(Case {
                    transport: tr,
                    hello_split: off,
                    hello_cuts: vec![],
                    rounds: vec![Round {
                        payloads: vec![0],
                        cuts: vec![],
                        delimiter_splits: vec![],
                        pause_ms: 3,
                        pads: vec![],
                        align: None,
                    }],
                });
                out.push(Case {
                    transport: tr,
                    hello_split: 0,
                    hello_cuts: vec![],
                    rounds: vec![
                        Round {
                            payloads: vec![1, 2],
                            cuts: vec![],
                            delimiter_splits: vec![(0, off)],
                            pause_ms: 3,
                            pads: vec![],
                            align: None,
                        },
                        Round {
                            payloads: vec![0],
                            cuts: vec![],
                            delimiter_splits: vec![(0, off)],
                            pause_ms: 3,
                            pads: vec![],
                            align: None,
                        },
                    ],
                });
            }
            out.push(Case {
                transport: tr,
                hello_split: 0,
                hello_cuts: vec![],
                rounds: vec![Round {
                    payloads: vec![0, 1, 2],
                    cuts: vec![],
                    delimiter_splits: vec![],
                    pause_ms: 0,
                    pads: vec![],
                    align: None,
                }],
            });
            // more messages in one unit than a transport-internal queue holds
            out.push(Case {
                transport: tr,
                hello_split: 0,
                hello_cuts: vec![],
                rounds: vec![Round {
                    payloads: vec![0; 40],
                    cuts: vec![],
                    delimiter_splits: vec![],
                    pause_ms: 0,
                    pads: vec![],
                    align: None,
                }],
            });
        }
        out
    }
    fn strategy(&self, _tier: Tier) -> BoxedStrategy<Case> {
        case_strategy()
    }
    fn check(&self, case: &Case) -> Obs {
        let mut obs = Obs::default();
        let plan = build_plan(case);
        obs.class(format!("transport:{:?}", case.transport));
        if plan.in_delimiter_splits > 0 {
            obs.class("cut-inside-delimiter");
        }
        if plan.multi_message_units > 0 {
            obs.class("several-messages-in-one-unit");
        }
        if plan.ends_at_buffer_boundary > 0 {
            obs.class("message-ends-next-to-a-power-of-two-offset");
        }
        match case.rounds.iter().map(|r| r.payloads.len()).max().unwrap_or(0) {
            0..=4 => {}
            5..=32 => obs.class("pipelined:5..32"),
            _ => obs.class("pipelined:33+"),
        }
        obs.nontrivial = plan.in_delimiter_splits > 0
            || plan.multi_message_units > 0
            || plan.ends_at_buffer_boundary > 0;
        match run_case(case, &plan) {
            Err(e) => obs.fail("harness-sanity:transport-setup", e),
            Ok((client, marks)) => {
                // where did the client's reads really end? (TLS / local CLI, from its own TRACE
                // records; only when the peer never had to nudge, i.e. wrote exactly the plan)
                let nudged = marks.marks.iter().any(|(n, _)| n.starts_with("nudge-"));
                if case.transport != Tr::Ssh && !nudged && !client.read_sizes.is_empty() {
                    let delims = delimiter_offsets(&plan.server_stream);
                    let mut at = 0usize;
                    let (mut inside, mut multi) = (0, 0);
                    for n in &client.read_sizes {
                        let end = at + n;
                        if delims.iter().any(|d| end > *d && end < *d + MARKER.len()) {
                            inside += 1;
                        }
                        if delims
                            .iter()
                            .filter(|d| **d + MARKER.len() > at && **d + MARKER.len() <= end)
                            .count()
                            >= 2
                        {
                            multi += 1;
                        }
                        at = end;
                    }
                    if at == plan.server_stream.len() {
                        obs.class("reads-measured");
                        if inside > 0 {
                            obs.class("achieved:a-read-ended-inside-a-delimiter");
                        }
                        if multi > 0 {
                            obs.class("achieved:one-read-held-the-ends-of-several-messages");
                        }
                    } else {
                        obs.class("reads-measured-but-total-differs(not-counted)");
                    }
                }
                judge(case, &plan, &client, &marks, &mut obs);
                if !obs.failures.is_empty() && !obs.failures[0].0.starts_with("harness") {
                    // timing is involved: reproduce once before reporting
                    let mut again = Obs::default();
                    match run_case(case, &plan) {
                        Ok((c2, m2)) => judge(case, &plan, &c2, &m2, &mut again),
                        Err(e) => again.fail("harness-sanity:transport-setup", e),
                    }
                    if again.failures.is_empty() {
                        obs.failures.clear();
                        obs.class("not-reproduced(discarded)");
                    }
                }
            }
        }
        obs
    }
    fn assumptions(&self) -> Vec<String> {
        vec![
            "TLS and pipe read boundaries cannot be forced, only encouraged (one write+flush per unit, pauses between units); SSH channel-data packet boundaries are exact".into(),
            "promptness is judged against the instant the peer itself sent further traffic (1.5 s without client progress); a failure must reproduce on an immediate second run".into(),
        ]
    }
}

// ------------------------------------------------------------------ a request between two packets

#[derive(Debug, Clone, Serialize, Deserialize)]
pub struct StaggeredCase {
    pub transport: Tr,
    /// where the first reply is cut (fraction of its length)
    pub cut: u16,
    pub pad: u16,
}

/// The peer writes the first part of reply 1, *waits until it has received the second request*,
/// then writes the rest of reply 1 and reply 2: sending must not disturb what has been received.
pub struct Staggered;

impl Prop for Staggered {
    type Case = StaggeredCase;
    fn max_shrink_iters(&self) -> u32 {
        60
    }
    fn name(&self) -> &'static str {
        "request-between-packets"
    }
    fn rule(&self) -> String {
        "transport {TLS, SSH, local CLI} x cut position of the first reply x its size: the client sends a request, the peer writes the first part of the reply and then waits for the client's second request (sent 250 ms later) before it writes the rest and the second reply. Oracle: both callers receive exactly their payloads. Non-trivial = every case (a send falls between two parts of a received message); distinct by case".into()
    }
    fn cases(&self, tier: Tier) -> u32 {
        tier.pick(24, 2_000)
    }
    fn max_threads(&self) -> usize {
        6
    }
    fn fixed_cases(&self) -> Vec<StaggeredCase> {
        [Tr::Tls, Tr::Ssh, Tr::Local]
            .into_iter()
            .map(|transport| StaggeredCase { transport, cut: 32768, pad: 0 })
            .collect()
    }
    fn strategy(&self, _tier: Tier) -> BoxedStrategy<StaggeredCase> {
        (
            prop_oneof![Just(Tr::Tls), Just(Tr::Ssh), Just(Tr::Local)],
            any::<u16>(),
            prop_oneof![3 => Just(0u16), 2 => 0u16..3000],
        )
            .prop_map(|(transport, cut, pad)| StaggeredCase { transport, cut, pad })
            .boxed()
    }
    fn check(&self, case: &StaggeredCase) -> Obs {
        let mut obs = Obs::default();
        obs.class(format!("transport:{:?}", case.transport));
        obs.nontrivial = true;
        let once = |case: &StaggeredCase| -> Option<(String, String)> {
            let hello = hello_bytes(&[BASE10, CAP_CANDIDATE], 66);
            let p1 = payload(0, 0, 0, case.pad as usize);
            let p2 = payload(0, 1, 0, 0);
            let first = reply_message("1", &p1);
            let cut = ((case.cut as usize * first.len()) >> 16).clamp(1, first.len() - 1);
            let mut rest = first[cut..].to_vec();
            rest.extend_from_slice(&reply_message("2", &p2));
            let script = Script {
                steps: vec![
                    Step::Write(hello),
                    Step::AwaitMessages(2),
                    Step::Write(first[..cut].to_vec()),
                    Step::AwaitMessages(3),
                    Step::PauseMs(20),
                    Step::Write(rest),
                    Step::HoldMs(8000),
                ],
            };
            let (tr, sc) = (case.transport, script);
            let t = format!("{:?}", case.transport).to_lowercase();
            let res = crate::core::with_watchdog(Duration::from_secs(40), move || {
                run_session(tr, &sc, ClientPlan::Staggered { gap_ms: 250 })
            });
            let (client, marks) = match res {
                None => return Some((format!("{t}:client-never-returns"), "the client thread did not return".into())),
                Some(Err(e)) => return Some(("harness-sanity:setup".into(), e)),
                Some(Ok(x)) => x,
            };
            if !matches!(client.established, Some(Ok(()))) {
                return Some((format!("harness-sanity:establishment-failed:{t}"), format!("{:?}; peer {:?}", client.established, marks.error)));
            }
            for (m, want) in [(0usize, &p1), (1, &p2)] {
                match client.replies.iter().find(|o| o.index == m) {
                    Some(o) if o.result.as_ref() == Ok(want) => {}
                    other => {
                        return Some((
                            format!("{t}:reply-lost-or-damaged-when-a-request-is-sent-between-its-packets"),
                            format!(
                                "reply {} of 2 (first reply cut after {cut} of {} bytes, second request sent in between): caller received {:?}",
                                m + 1,
                                first.len(),
                                other.map(|o| &o.result)
                            ),
                        ))
                    }
                }
            }
            None
        };
        if let Some((sig, msg)) = once(case) {
            if sig.starts_with("harness") || once(case).is_some() {
                obs.fail(sig, msg);
            } else {
                obs.class("not-reproduced(discarded)");
            }
        }
        obs
    }
    fn assumptions(&self) -> Vec<String> {
        vec!["the second request is sent 250 ms after the first; the peer waits for it, so the order 'part 1 received, request 2 sent, rest received' does not depend on timing; a failure must reproduce on an immediate re-run".into()]
    }
}

pub fn property() -> Property {
    Property {
        id: "C06",
        level: "exploration",
        parts: vec![Box::new(PropPart(C06)), Box::new(PropPart(Staggered))],
    }
}
