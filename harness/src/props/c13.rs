//! C13 — parsing is invariant under XML-equivalent serialisations of a message.
//!
//! Metamorphic: one abstract message tree rendered in two styles must give the same outcome
//! (`Ok(value)` compared by its Debug rendering, errors compared as a class). On a difference the
//! check attributes it to single rewrites (and, for element-level rewrites, to single elements)
//! by re-rendering the canonical style with exactly one rewrite applied, so that every failure
//! has an exact signature `reader:rewrite:element`.

use proptest::prelude::*;
use serde::{Deserialize, Serialize};

use crate::{
    core::{Obs, Prop, PropPart, Property, Tier},
    mem::Wire,
    ops::{run_req, ReplyKind, ReqSpec},
    props::{
        c08,
        c09::{CapSet, SCHEMES, STD_CAPS},
        c12::{self, CapsElem, Malform, Sid},
    },
    replygen::{reply_x, Item},
    sess::{all_caps, establish_caps, establish_with, Establish},
    xmlgen::{render_message, style_strategy, Style, Ws, X},
};

/// One rewrite = one field of `Style` set to a non-canonical value.
fn single_rewrites(s: &Style) -> Vec<(&'static str, Style, bool)> {
    // (name, canonical style with only this field taken from `s`, element-level?)
    let c = Style::canonical();
    let mut v = Vec::new();
    if s.base_prefix != c.base_prefix {
        v.push(("base-prefix", Style { base_prefix: s.base_prefix.clone(), ..c.clone() }, false));
    }
    if s.xnm_prefix != c.xnm_prefix {
        v.push(("xnm-prefix", Style { xnm_prefix: s.xnm_prefix.clone(), ..c.clone() }, false));
    }
    if s.inter != c.inter {
        v.push(("inter-element-ws", Style { inter: s.inter.clone(), ..c.clone() }, false));
    }
    if s.token_ws != c.token_ws {
        v.push(("token-ws", Style { token_ws: s.token_ws.clone(), ..c.clone() }, true));
    }
    if s.comments >= 1 {
        v.push(("comment-inside", Style { comments: 1, ..c.clone() }, true));
    }
    if s.comments >= 2 {
        // comments around the root only: render with scope that matches no element
        v.push((
            "comment-around-root",
            Style { comments: 2, scope: Some("\u{0}none".into()), ..c.clone() },
            false,
        ));
    }
    if s.single_quotes != c.single_quotes {
        v.push(("quotes", Style { single_quotes: s.single_quotes, ..c.clone() }, false));
    }
    if s.reverse_attrs != c.reverse_attrs {
        v.push(("attr-order", Style { reverse_attrs: s.reverse_attrs, ..c.clone() }, false));
    }
    if s.xml_decl != c.xml_decl {
        v.push(("xml-decl", Style { xml_decl: s.xml_decl, decl_form: s.decl_form, ..c.clone() }, false));
    }
    if s.expand_empty != c.expand_empty {
        v.push(("empty-leaf-as-start-end", Style { expand_empty: s.expand_empty, ..c.clone() }, true));
    }
    if s.collapse_containers != c.collapse_containers {
        v.push((
            "empty-container-self-closed",
            Style { collapse_containers: s.collapse_containers, ..c.clone() },
            true,
        ));
    }
    if s.before_marker != c.before_marker {
        v.push(("ws-before-marker", Style { before_marker: s.before_marker.clone(), ..c.clone() }, false));
    }
    v
}

/// Compare the outcomes of two styles; on a difference attribute it.
pub fn metamorphic(
    reader: &str,
    tree: &X,
    a: &Style,
    b: &Style,
    eval: &dyn Fn(&Style) -> String,
    obs: &mut Obs,
) {
    for st in [a, b] {
        let msg = render_message(tree, st);
        let body = msg.strip_suffix("]]>]]>").unwrap_or(&msg);
        if let Err(e) = crate::xmlstrict::parse_document(body) {
            obs.fail(
                "harness-sanity:renderer-produced-ill-formed-xml",
                format!("{e}: {msg:?}"),
            );
            return;
        }
    }
    let oa = eval(a);
    let ob = eval(b);
    obs.inner_evals += 1;
    if oa == ob {
        return;
    }
    let canon = eval(&Style::canonical());
    let mut found = false;
    let mut seen: Vec<String> = Vec::new();
    for s in [a, b] {
        for (name, st, element_level) in single_rewrites(s) {
            if eval(&st) == canon {
                continue;
            }
            if element_level {
                let mut any = false;
                for el in tree.element_names() {
                    let scoped = Style {
                        scope: Some(el.clone()),
                        ..st.clone()
                    };
                    if eval(&scoped) != canon {
                        any = true;
                        let sig = format!("{reader}:{name}:{el}");
                        if !seen.contains(&sig) {
                            seen.push(sig.clone());
                            obs.fail(
                                sig,
                                format!(
                                    "{reader}: rewrite '{name}' applied to <{el}> changes the outcome from {canon:?} to {:?}; message: {:?}",
                                    eval(&scoped),
                                    render_message(tree, &scoped)
                                ),
                            );
                        }
                        found = true;
                    }
                }
                if any {
                    continue;
                }
            }
            let sig = format!("{reader}:{name}");
            if !seen.contains(&sig) {
                seen.push(sig.clone());
                obs.fail(
                    sig,
                    format!(
                        "{reader}: rewrite '{name}' changes the outcome from {canon:?} to {:?}; message: {:?}",
                        eval(&st),
                        render_message(tree, &st)
                    ),
                );
            }
            found = true;
        }
    }
    if !found {
        obs.fail(
            format!("{reader}:combination:{}", a.diff(b).join("+")),
            format!(
                "{reader}: outcomes differ ({oa:?} vs {ob:?}) for styles differing in {:?}; messages {:?} / {:?}",
                a.diff(b),
                render_message(tree, a),
                render_message(tree, b)
            ),
        );
    }
}

fn touches_reader(a: &Style, b: &Style) -> bool {
    !a.diff(b).is_empty()
}

// ---------------------------------------------------------------- hello

#[derive(Debug, Clone, Serialize, Deserialize)]
pub struct HelloCase {
    pub hello: c12::Case,
    pub a: Style,
    pub b: Style,
}

fn hello_outcome(tree: &X, style: &Style) -> String {
    let wire = Wire::new();
    let msg = render_message(tree, style);
    match establish_with(&wire, msg.as_bytes()) {
        Establish::Ok(sess) => {
            let ctx = sess.context();
            let mut caps: Vec<String> = ctx
                .server_capabilities()
                .iter()
                .map(|c| c.uri().into_owned())
                .collect();
            caps.sort();
            format!(
                "ok:{}|{:?}|{caps:?}",
                ctx.session_id(),
                ctx.protocol_version()
            )
        }
        Establish::Err(_) => "error".into(),
        Establish::Stuck => "stuck".into(),
    }
}

pub struct HelloPart;

impl Prop for HelloPart {
    type Case = HelloCase;
    fn name(&self) -> &'static str {
        "hello"
    }
    fn rule(&self) -> String {
        "a server hello tree (capability subsets, unknown URIs, valid and invalid session-ids, \
         missing/duplicated children, wrong root) rendered in two generated styles (prefix vs default \
         namespace, inter-element whitespace, whitespace around token text, comments inside and \
         around the root, attribute order, quote character, XML declaration, both empty-element \
         forms, whitespace before the delimiter). Non-trivial = the styles differ and the canonical \
         rendering is accepted; distinct by (tree, style pair)"
            .into()
    }
    fn cases(&self, tier: Tier) -> u32 {
        tier.pick(20_000, 1_000_000)
    }
    fn strategy(&self, _tier: Tier) -> BoxedStrategy<HelloCase> {
        let hello = (
            (any::<bool>(), any::<u16>(), any::<bool>(), any::<u8>()),
            prop::collection::vec(
                prop_oneof![
                    Just("urn:ietf:params:netconf:capability:notification:1.0".to_string()),
                    Just("http://xml.juniper.net/dmi/system/1.0".to_string()),
                ],
                0..2,
            ),
            prop_oneof![
                8 => c12::sid_strategy(),
                8 => (1u32..100_000).prop_map(Sid::Valid),
            ],
            prop_oneof![10 => Just(CapsElem::Once), 1 => Just(CapsElem::Missing), 1 => Just(CapsElem::Twice)],
            any::<bool>(),
            prop_oneof![10 => Just(Malform::None), 1 => Just(Malform::WrongRootName), 1 => Just(Malform::WrongNamespace)],
        )
            .prop_map(
                |((b11, std, url, schemes), unknown_caps, sid, caps_elem, sid_first, malform)| c12::Case {
                    foreign_cap: None,
                    base10: true,
                    base11: b11,
                    caps: CapSet {
                        std: std & ((1 << STD_CAPS.len()) - 1),
                        base11: b11,
                        url,
                        schemes: schemes & ((1 << SCHEMES.len()) - 1),
                        order: (std >> 10) as u8 | ((schemes >> 5) << 6),
                        lookalikes: 0,
                    },
                    unknown_caps,
                    duplicate_first_cap: false,
                    sid,
                    caps_elem,
                    sid_first,
                    prefixed: false,
                    malform,
                    server_waits_for_client: false,
                },
            );
        (hello, style_strategy(), style_strategy())
            .prop_map(|(hello, a, b)| HelloCase { hello, a, b })
            .boxed()
    }
    fn check(&self, case: &HelloCase) -> Obs {
        let mut obs = Obs::default();
        let (tree, _) = c12::hello_tree(&case.hello);
        let canon_ok = hello_outcome(&tree, &Style::canonical()).starts_with("ok:");
        obs.class(if canon_ok {
            "canonical:accepted"
        } else {
            "canonical:rejected"
        });
        for d in case.a.diff(&case.b) {
            obs.class(format!("rewrite:{d}"));
        }
        obs.nontrivial = canon_ok && touches_reader(&case.a, &case.b);
        metamorphic(
            "hello",
            &tree,
            &case.a,
            &case.b,
            &|s| hello_outcome(&tree, s),
            &mut obs,
        );
        obs
    }
    fn assumptions(&self) -> Vec<String> {
        assumptions()
    }
}

fn assumptions() -> Vec<String> {
    vec![
        "comments are inserted between elements only (never inside text); whitespace is added only around token-valued text (capability URIs, numbers, enumeration values, error strings the library itself trims)".into(),
        "errors are compared as a class (any error == any error), values by their Debug rendering".into(),
        "the payload of <data> is opaque and copied verbatim in both styles".into(),
    ]
}

// ---------------------------------------------------------------- rpc-reply

#[derive(Debug, Clone, Serialize, Deserialize)]
pub struct ReplyCase {
    pub op: u8,
    pub items: Vec<Item>,
    pub a: Style,
    pub b: Style,
}

fn reply_outcome(spec: &ReqSpec, items: &[Item], style: &Style) -> String {
    let (sess, wire) = establish_caps(&all_caps());
    let (_s, _req, out) = run_req(sess, &wire, spec, |id| {
        vec![render_message(&reply_x(id, items), style).into_bytes()]
    });
    out.class()
}

pub struct ReplyPart;

impl Prop for ReplyPart {
    type Case = ReplyCase;
    fn name(&self) -> &'static str {
        "rpc-reply"
    }
    fn rule(&self) -> String {
        "an rpc-reply tree for every operation's reply type (ok / data / bare / \
         load-configuration-results, 0..4 rpc-errors with all optional fields) rendered in two \
         generated styles; outcome = Ok(value) / Err(RpcError(list)) / other error. Non-trivial = \
         the styles differ and the canonical rendering parses (Ok or RpcError); distinct by (tree, \
         style pair)"
            .into()
    }
    fn cases(&self, tier: Tier) -> u32 {
        tier.pick(30_000, 1_500_000)
    }
    fn strategy(&self, tier: Tier) -> BoxedStrategy<ReplyCase> {
        (c08::C08.strategy(tier), style_strategy(), style_strategy())
            .prop_map(|(c, a, b)| ReplyCase {
                op: c.op,
                items: c.items,
                a,
                b,
            })
            .boxed()
    }
    fn check(&self, case: &ReplyCase) -> Obs {
        let mut obs = Obs::default();
        let ops = ReqSpec::canonical();
        let spec = &ops[case.op as usize % ops.len()];
        let reader = match spec.reply_kind() {
            ReplyKind::Empty => "reply-empty",
            ReplyKind::Data => "reply-data",
            ReplyKind::Bare => "reply-bare",
            ReplyKind::Load => "reply-load",
        };
        let tree = reply_x("1", &case.items);
        let canon = reply_outcome(spec, &case.items, &Style::canonical());
        let parses = canon.starts_with("ok:") || canon.starts_with("rpc-errors:");
        obs.class(format!("reader:{reader}"));
        obs.class(if parses {
            "canonical:parsed"
        } else {
            "canonical:rejected"
        });
        for d in case.a.diff(&case.b) {
            obs.class(format!("rewrite:{d}"));
        }
        obs.nontrivial = parses && touches_reader(&case.a, &case.b);
        metamorphic(
            reader,
            &tree,
            &case.a,
            &case.b,
            &|s| reply_outcome(spec, &case.items, s),
            &mut obs,
        );
        obs
    }
    fn assumptions(&self) -> Vec<String> {
        assumptions()
    }
}

pub fn property() -> Property {
    Property {
        id: "C13",
        level: "exploration",
        parts: vec![
            Box::new(PropPart(HelloPart)),
            Box::new(PropPart(ReplyPart)),
            Box::new(PropPart(crate::props::agent_parts::C13Config)),
        ],
    }
}

#[allow(dead_code)]
fn _unused(_: Ws) {}
