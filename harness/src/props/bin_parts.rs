//! Engine C parts that need their own case types: the `bgpfu` command's stdout (C11), the agent
//! binary's stderr at maximum verbosity (C20), and the agent binary's exit under peer
//! disconnects (C07).

use std::{
    sync::{Arc, Mutex},
    time::Duration,
};

use proptest::prelude::*;
use serde::{Deserialize, Serialize};

use crate::{
    binrun::{run_agent, run_bgpfu, AgentOpts, JunosTlsServer},
    core::{Obs, Prop, Tier},
    fake_junos::{FakeJunos, Fault, FaultKind},
    irr::{parse_range_display, FakeIrrd},
    net,
    props::{
        c04::scenario,
        c11::{self, Evaluated},
        c20::{needles, private_parts},
    },
};

// ------------------------------------------------------------------ C11: bgpfu stdout

pub struct C11Cli;

impl Prop for C11Cli {
    type Case = c11::Case;
    fn max_shrink_iters(&self) -> u32 {
        120
    }
    fn name(&self) -> &'static str {
        "bgpfu-command"
    }
    fn rule(&self) -> String {
        "the databases and expressions of part `evaluator`; the unmodified `bgpfu` binary is run \
         against the fake IRRd and every line of its stdout is parsed as a prefix range; the \
         printed set must equal the RPSL set exactly, and the command must fail (non-zero exit) \
         exactly when the evaluation has to fail. Non-trivial = a non-empty set is printed; \
         distinct by (database, expression)"
            .into()
    }
    fn cases(&self, tier: Tier) -> u32 {
        tier.pick(300, 20_000)
    }
    fn strategy(&self, tier: Tier) -> BoxedStrategy<c11::Case> {
        c11::C11.strategy(tier)
    }
    fn check(&self, case: &c11::Case) -> Obs {
        let mut obs = Obs::default();
        let expr = &case.exprs[0];
        let irrd = match FakeIrrd::start(case.spec.db.clone(), case.spec.chunk as usize) {
            Ok(s) => s,
            Err(e) => {
                obs.fail("harness-sanity:fake-irrd", format!("{e}"));
                return obs;
            }
        };
        let res = match run_bgpfu(irrd.port, &expr.text(), Duration::from_secs(60)) {
            Ok(r) => r,
            Err(e) => {
                obs.fail("harness-sanity:bgpfu", e);
                return obs;
            }
        };
        if res.timed_out {
            obs.fail("bgpfu-never-exits", format!("bgpfu {:?} did not exit", expr.text()));
            return obs;
        }
        let got = if res.exit == Some(0) {
            let mut ranges = Vec::new();
            for line in res.stdout.lines().filter(|l| !l.trim().is_empty()) {
                match parse_range_display(line) {
                    Some(r) => ranges.push(r),
                    None => {
                        obs.fail(
                            "unparseable-output-line",
                            format!("bgpfu printed {line:?} for {}", expr.text()),
                        );
                        return obs;
                    }
                }
            }
            obs.nontrivial = !ranges.is_empty();
            Evaluated::Set(ranges)
        } else if res.stderr.contains("panicked") {
            Evaluated::Panicked("bgpfu".into(), res.stderr.lines().last().unwrap_or("").to_string())
        } else {
            Evaluated::Failed(res.stderr.lines().last().unwrap_or("").to_string())
        };
        c11::judge(&case.spec, expr, &got, &mut obs, "bgpfu stdout");
        obs
    }
}

// ------------------------------------------------------------------ C20: agent stderr

#[derive(Debug, Clone, Serialize, Deserialize)]
pub struct AgentLogCase {
    /// index into KEY_FILES
    pub key: u8,
    pub verbosity: u8,
    pub rust_log: Option<u8>,
    /// 0 success, 1 server closes right after the hello, 2 IRR unreachable, 3 wrong port
    pub outcome: u8,
    /// how the key reaches the agent: 0 the committed files (certificate and key apart);
    /// 1 key file = key followed by the certificate; 2 certificate file = certificate followed by
    /// the key (a bundle; the key file is given as well); 3 key file with its line breaks turned
    /// into spaces; 4 key file with CR line ends; 5 key file without its END line; 6 key file
    /// with a line of text before the PEM block; 7 key file = certificate followed by the key;
    /// 8 key file with a preamble that is not UTF-8 (Latin-1 friendly name, as PKCS#12 exports have);
    /// 9 key file starting with a UTF-8 byte-order mark; 10 key file = key without its END line
    /// followed by the certificate (a second BEGIN line inside the open section); 11 the bare
    /// base64 body on one line, armour lines lost (a secret-store export); 12 the body lines
    /// without the armour lines
    #[serde(default)]
    pub layout: u8,
}

/// write the certificate / key files of a layout under /verif/target (never /tmp); returns
/// (certificate path, key path, directory to remove afterwards)
fn layout_files(crt: &str, keyfile: &str, layout: u8) -> Option<(String, String, Option<std::path::PathBuf>)> {
    let pki = net::pki_dir();
    let (crt_p, key_p) = (pki.join(crt), pki.join(keyfile));
    if layout == 0 {
        return Some((crt_p.display().to_string(), key_p.display().to_string(), None));
    }
    static N: std::sync::atomic::AtomicUsize = std::sync::atomic::AtomicUsize::new(0);
    let dir = crate::core::verif_root().join("target").join("c20-files").join(format!(
        "{}-{}",
        std::process::id(),
        N.fetch_add(1, std::sync::atomic::Ordering::Relaxed)
    ));
    std::fs::create_dir_all(&dir).ok()?;
    let cert = std::fs::read_to_string(&crt_p).ok()?;
    let key = std::fs::read_to_string(&key_p).ok()?;
    let (new_cert, new_key) = match layout {
        1 => (cert.clone(), format!("{key}{cert}")),
        2 => (format!("{cert}{key}"), key.clone()),
        3 => (cert.clone(), format!("{}\n", key.trim_end().replace('\n', " "))),
        4 => (cert.clone(), format!("{}\n", key.trim_end().replace('\n', "\r"))),
        5 => (
            cert.clone(),
            key.lines().filter(|l| !l.starts_with("-----END")).map(|l| format!("{l}\n")).collect(),
        ),
        6 => (cert.clone(), format!("Bag Attributes: client key\n{key}")),
        7 => (cert.clone(), format!("{cert}{key}")),
        9 => (cert.clone(), format!("\u{feff}{key}")),
        11 => (
            cert.clone(),
            format!("{}\n", key.lines().filter(|l| !l.starts_with("-----")).collect::<String>()),
        ),
        12 => (
            cert.clone(),
            key.lines().filter(|l| !l.starts_with("-----")).map(|l| format!("{l}\n")).collect(),
        ),
        10 => (
            cert.clone(),
            format!(
                "{}{cert}",
                key.lines().filter(|l| !l.starts_with("-----END")).map(|l| format!("{l}\n")).collect::<String>()
            ),
        ),
        // 8: as `openssl pkcs12 -nodes` writes it, with a Latin-1 (not UTF-8) friendly name
        _ => (cert.clone(), key.clone()),
    };
    let (c, k) = (dir.join("client.crt"), dir.join("client.key"));
    std::fs::write(&c, new_cert).ok()?;
    if layout == 8 {
        let mut bytes = b"Bag Attributes\n    friendlyName: Jos\xe9 router key\nKey Attributes: <No Attributes>\n".to_vec();
        bytes.extend_from_slice(new_key.as_bytes());
        std::fs::write(&k, bytes).ok()?;
    } else {
        std::fs::write(&k, new_key).ok()?;
    }
    Some((c.display().to_string(), k.display().to_string(), Some(dir)))
}

const KEY_FILES: &[(&str, &str)] = &[
    ("client-rsa.crt", "client-rsa.pk8.key"),
    ("client-rsa.crt", "client-rsa.pkcs1.key"),
    ("client-p256.crt", "client-p256.pk8.key"),
    ("client-p256.crt", "client-p256.sec1.key"),
    ("client-ed25519.crt", "client-ed25519.pk8.key"),
];

const RUST_LOG: &[&str] = &[
    "trace",
    "debug",
    "bgpfu_junos_agent=trace,netconf=trace",
    "netconf=trace,rustls=trace,tokio_rustls=trace",
    "info,netconf::transport::tls=trace",
];

fn strip_ansi(s: &str) -> String {
    let mut out = String::new();
    let mut it = s.chars().peekable();
    while let Some(c) = it.next() {
        if c == '\u{1b}' && it.peek() == Some(&'[') {
            it.next();
            for d in it.by_ref() {
                if d.is_ascii_alphabetic() {
                    break;
                }
            }
        } else {
            out.push(c);
        }
    }
    out
}

pub struct C20Agent;

impl Prop for C20Agent {
    type Case = AgentLogCase;
    fn max_shrink_iters(&self) -> u32 {
        120
    }
    fn name(&self) -> &'static str {
        "agent-stderr"
    }
    fn rule(&self) -> String {
        "the unmodified agent binary (one-shot, `remote` target over TLS on loopback) with one of 5 \
         client keys in 13 layouts of the certificate / key files (every layout also as a fixed case at -vvvv), 0..4 -v flags, optionally a RUST_LOG directive, and a successful or failing \
         run (server closes after the hello, IRR unreachable, nothing listening); its complete \
         stderr (ANSI sequences removed) is searched for the key: every line of the PEM body, the \
         whole DER and every secret component of it in clear / hex / base64 (all alignments) / \
         byte lists, whole and in 16-byte windows. Positive control: the key *path*, which the \
         agent logs at debug level, must be found by the same search when the level admits it. \
         Non-trivial = the output contains the positive control; distinct by case"
            .into()
    }
    fn cases(&self, tier: Tier) -> u32 {
        tier.pick(60, 3_000)
    }
    fn fixed_cases(&self) -> Vec<AgentLogCase> {
        // every key-file layout at the highest verbosity, with an RSA and an Ed25519 key
        let mut v = Vec::new();
        for layout in 0u8..13 {
            for key in [0u8, 4] {
                v.push(AgentLogCase { key, verbosity: 4, rust_log: None, outcome: 0, layout });
            }
        }
        v
    }
    fn strategy(&self, _tier: Tier) -> BoxedStrategy<AgentLogCase> {
        (
            0u8..KEY_FILES.len() as u8,
            prop_oneof![1 => Just(0u8), 1 => Just(1u8), 2 => Just(2u8), 2 => Just(3u8), 3 => Just(4u8)],
            prop::option::weighted(0.4, 0u8..RUST_LOG.len() as u8),
            prop_oneof![4 => Just(0u8), 1 => Just(1u8), 1 => Just(2u8), 1 => Just(3u8)],
            prop_oneof![3 => Just(0u8), 7 => 1u8..13],
        )
            .prop_map(|(key, verbosity, rust_log, outcome, layout)| AgentLogCase {
                key,
                verbosity,
                rust_log,
                outcome,
                layout,
            })
            .boxed()
    }
    fn check(&self, case: &AgentLogCase) -> Obs {
        let mut obs = Obs::default();
        let (crt, keyfile) = KEY_FILES[case.key as usize % KEY_FILES.len()];
        let (stmts, db) = scenario(&[(0b11, 0b1)]);
        let irrd = match FakeIrrd::start(db, 0) {
            Ok(s) => s,
            Err(e) => {
                obs.fail("harness-sanity:fake-irrd", format!("{e}"));
                return obs;
            }
        };
        let fake = Arc::new(Mutex::new(FakeJunos::new("bgpfu")));
        {
            let mut f = fake.lock().unwrap();
            f.running = stmts;
            if case.outcome == 1 {
                f.faults = vec![Fault {
                    at: 0,
                    kind: FaultKind::CloseBeforeReply,
                }];
            }
        }
        let server = match JunosTlsServer::start(fake.clone()) {
            Ok(s) => s,
            Err(e) => {
                obs.fail("harness-sanity:tls-front-end", e);
                return obs;
            }
        };
        let directive = case.rust_log.map(|i| RUST_LOG[i as usize % RUST_LOG.len()]);
        let Some((crt_path, key_path, scratch)) = layout_files(crt, keyfile, case.layout) else {
            obs.fail("harness-sanity:setup", "cannot write the key files of the layout");
            return obs;
        };
        obs.class(format!("key-file-layout:{}", case.layout));
        let res = run_agent(&AgentOpts {
            netconf_port: if case.outcome == 3 { 1 } else { server.port },
            irr_port: if case.outcome == 2 { 1 } else { irrd.port },
            db: "bgpfu",
            verbosity: case.verbosity,
            rust_log: directive,
            client_cert: &crt_path,
            client_key: &key_path,
            limit: Duration::from_secs(40),
        });
        if let Some(d) = scratch {
            let _ = std::fs::remove_dir_all(d);
        }
        let res = match res {
            Ok(r) => r,
            Err(e) => {
                obs.fail("harness-sanity:agent", e);
                return obs;
            }
        };
        drop(server);
        obs.class(format!("verbosity:-{}", "v".repeat(case.verbosity as usize)));
        obs.class(format!("outcome:{}", case.outcome));
        obs.class(format!("exit:{:?}", res.exit));
        if res.timed_out {
            obs.fail("agent-never-exits", format!("case {case:?}"));
            return obs;
        }
        let text = strip_ansi(&format!("{}\n{}", res.stderr, res.stdout));
        let has_control = text.contains(&key_path);
        obs.nontrivial = has_control;
        obs.class(if has_control {
            "capture:with-key-path"
        } else {
            "capture:without-key-path"
        });
        // with -v (debug) or more and no RUST_LOG override the path must be there (outcome 3
        // fails before connecting but after logging the paths)
        if case.verbosity >= 1 && directive.is_none() && !has_control {
            obs.fail(
                "harness-sanity:positive-control-missing",
                format!("-{} but the key path {key_path} is not in the output ({} bytes)", "v".repeat(case.verbosity as usize), text.len()),
            );
        }
        // needles: PEM body lines, whole DER, secret components
        let pem = std::fs::read_to_string(net::pki_dir().join(keyfile)).unwrap_or_default();
        for line in pem.lines().filter(|l| !l.starts_with("-----") && l.len() >= 16) {
            if text.contains(line) {
                let at = text.find(line).unwrap_or(0);
                let from = text[..at].rfind('\n').map_or(0, |i| i + 1);
                obs.fail(
                    format!("private-key-in-log:pem-line:key-file-layout-{}", case.layout),
                    format!(
                        "the agent's output contains a line of the PEM body of {keyfile} (key file layout {}); the record starts: {:?}",
                        case.layout,
                        &text[from..(from + 200).min(text.len())]
                    ),
                );
                return obs;
            }
        }
        // the text of the file as a list of byte values (an error value that embeds its input)
        for line in pem.lines().filter(|l| !l.starts_with("-----") && l.len() >= 16) {
            let b = &line.as_bytes()[..16];
            let dec: Vec<String> = b.iter().map(|x| x.to_string()).collect();
            let hex: Vec<String> = b.iter().map(|x| format!("{x:02x}")).collect();
            for (kind, n) in [
                ("decimal-list", dec.join(", ")),
                ("decimal-list", dec.join(",")),
                ("hex-list", hex.join(", ")),
                ("hex-list", hex.join(" ")),
            ] {
                if text.to_lowercase().contains(&n) {
                    obs.fail(
                        format!("private-key-in-log:pem-text-as-{kind}:key-file-layout-{}", case.layout),
                        format!("the agent's output contains the text of {keyfile} as a list of byte values (key file layout {})", case.layout),
                    );
                    return obs;
                }
            }
        }
        let der = net::read_key(&net::pki_dir().join(keyfile))
            .map(|k| k.secret_der().to_vec())
            .unwrap_or_default();
        let mut all = needles(&der, false);
        for part in private_parts(&der) {
            all.extend(needles(&part, true));
        }
        for (kind, n) in all {
            if n.len() >= 6 && text.contains(&n) {
                let at = text.find(&n).unwrap_or(0);
                let from = text[..at].rfind('\n').map_or(0, |i| i + 1);
                obs.fail(
                    format!("private-key-in-log:{}", kind.split(':').nth(1).unwrap_or(&kind)),
                    format!("the agent's output contains the private key ({kind}); line starts: {:?}", &text[from..(from + 300).min(text.len())]),
                );
                return obs;
            }
        }
        obs
    }
}

// ------------------------------------------------------------------ C07: agent exit

#[derive(Debug, Clone, Serialize, Deserialize)]
pub struct AgentCloseCase {
    pub at: u8,
    pub after_reply: bool,
}

pub struct C07Agent;

impl Prop for C07Agent {
    type Case = AgentCloseCase;
    fn max_shrink_iters(&self) -> u32 {
        60
    }
    fn name(&self) -> &'static str {
        "agent-exit"
    }
    fn rule(&self) -> String {
        "the unmodified one-shot agent binary over TLS against a fake Junos that closes the \
         connection before or right after its reply to each request of the sequence open / \
         get-config x2 / load x2 / commit / close-configuration / close-session (enumerated). \
         Oracle: the process exits within the bound, with a non-zero status unless the close came \
         after the final reply. Non-trivial = every case; distinct by (position, before/after)"
            .into()
    }
    fn cases(&self, _tier: Tier) -> u32 {
        0
    }
    fn exhaustive(&self, _tier: Tier) -> bool {
        true
    }
    fn fixed_cases(&self) -> Vec<AgentCloseCase> {
        let mut v = Vec::new();
        for at in 0..8 {
            for after_reply in [false, true] {
                v.push(AgentCloseCase { at, after_reply });
            }
        }
        v
    }
    fn strategy(&self, _tier: Tier) -> BoxedStrategy<AgentCloseCase> {
        (0u8..8, any::<bool>())
            .prop_map(|(at, after_reply)| AgentCloseCase { at, after_reply })
            .boxed()
    }
    fn check(&self, case: &AgentCloseCase) -> Obs {
        let mut obs = Obs::default();
        obs.nontrivial = true;
        let (stmts, db) = scenario(&[(0b11, 0b1)]);
        let irrd = match FakeIrrd::start(db, 0) {
            Ok(s) => s,
            Err(e) => {
                obs.fail("harness-sanity:fake-irrd", format!("{e}"));
                return obs;
            }
        };
        let fake = Arc::new(Mutex::new(FakeJunos::new("bgpfu")));
        {
            let mut f = fake.lock().unwrap();
            f.running = stmts;
            f.ephemeral = crate::props::c04::stale_config(1);
            f.faults = vec![Fault {
                at: case.at as usize,
                kind: if case.after_reply {
                    FaultKind::CloseAfterReply
                } else {
                    FaultKind::CloseBeforeReply
                },
            }];
        }
        let server = match JunosTlsServer::start(fake.clone()) {
            Ok(s) => s,
            Err(e) => {
                obs.fail("harness-sanity:tls-front-end", e);
                return obs;
            }
        };
        let res = run_agent(&AgentOpts {
            netconf_port: server.port,
            irr_port: irrd.port,
            db: "bgpfu",
            verbosity: 0,
            rust_log: None,
            client_cert: "client-rsa.crt",
            client_key: "client-rsa.pk8.key",
            limit: crate::props::c07::bound() + Duration::from_secs(5),
        });
        drop(server);
        let key = format!(
            "position-{}:{}",
            case.at,
            if case.after_reply { "after-reply" } else { "before-reply" }
        );
        match res {
            Err(e) => obs.fail("harness-sanity:agent", e),
            Ok(r) if r.timed_out => obs.fail(
                format!("agent-never-exits:{key}"),
                format!("the agent was still running {:?} after the peer closed the connection", r.wall),
            ),
            Ok(r) => {
                let last = case.at == 7 && case.after_reply;
                if r.exit == Some(0) && !last {
                    obs.fail(
                        format!("agent-exits-zero-after-disconnect:{key}"),
                        format!("stderr tail: {:?}", r.stderr.lines().rev().take(2).collect::<Vec<_>>()),
                    );
                }
            }
        }
        obs
    }
}
