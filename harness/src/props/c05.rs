//! C05 — each RPC caller receives exactly the reply to its own request, and
//! C18 — abandoning one reply future does not disturb other outstanding requests.
//!
//! Engine D: the real `Session` over the in-memory transport, driven by an executor whose
//! schedule is a generated value. A sender task issues n pipelined requests; reply futures are
//! placed in separate tasks or grouped (joined / awaited sequentially); the fake server releases
//! the replies in a generated permutation; a send gate lets a send stay pending (the session holds
//! its request map locked across a send); stray replies and (C18) drops of reply futures at their
//! current suspension point are further schedule actions.

use std::{cell::RefCell, collections::BTreeSet, future::Future, pin::Pin, rc::Rc};

use netconf::{
    message::rpc::operation::{Builder as _, GetConfig, Lock, Opaque},
    Session,
};
use proptest::prelude::*;
use serde::{Deserialize, Serialize};

use crate::{
    core::{catch, pick_idx, Obs, Prop, PropPart, Property, Tier},
    mem::{MemTransport, Wire},
    ops::Ds,
    sched::{Exec, Gate},
    sess::{all_caps, hello_xml, message_id_lenient, MARKER, NS_BASE},
};

#[derive(Debug, Clone, Copy, PartialEq, Eq, Serialize, Deserialize)]
pub enum OpKind {
    /// get-config answered with a tagged `<data>` payload
    Get,
    /// lock answered with `<ok/>`
    LockOk,
    /// lock answered with a tagged `<rpc-error>`
    LockErr,
}

#[derive(Debug, Clone, Serialize, Deserialize)]
pub struct World {
    pub ops: Vec<OpKind>,
    /// arrival rank of each request's reply (lower = released earlier)
    pub arrival: Vec<u16>,
    /// group of each request; requests of one group are awaited in one task
    pub groups: Vec<u8>,
    /// groups await their futures sequentially (else joined)
    pub sequential: bool,
    /// number of stray replies (unknown message-id) the server may inject
    pub strays: u8,
    /// > 0: sends are gated — each send needs a credit that the schedule hands out one at a time
    /// (so a send can stay pending, with the session's request map locked, while other tasks run)
    pub gate_closes: u8,
    /// how many reply-future drops are allowed (C18; 0 for C05)
    pub drops: u8,
    pub schedule: Vec<u16>,
    /// (request index, delivered): the transport reports an I/O error for that request's send,
    /// either without delivering anything or after the whole message reached the server (a late
    /// flush error); the server answers a delivered request like any other
    #[serde(default)]
    pub send_faults: Vec<(u8, bool)>,
    /// every send hands its bytes to the server at once but returns only when the schedule lets
    /// it (a flush that takes time): the server can answer, and another task can read that answer,
    /// while `rpc()` is still inside its send
    #[serde(default)]
    pub slow_flush: bool,
    /// the reply to this request is large (about 70 KiB): code that treats big messages
    /// differently (yields, copies, chunks) must stay correct and cancellation safe
    #[serde(default)]
    pub big_reply: Option<u8>,
    /// the stray replies of this world are *repeats*: the server sends the reply it released
    /// last a second time (while the first copy may still be parked for its owner)
    #[serde(default)]
    pub repeat_strays: bool,
    /// bit i: the reply to request i starts with an XML declaration (a conforming peer is free to
    /// write one)
    #[serde(default)]
    pub xml_decl: u8,
}

type Tagged = Result<String, String>;
type BoxFut = Pin<Box<dyn Future<Output = Tagged>>>;

struct Shared {
    futures: Vec<Option<BoxFut>>,
    results: Vec<Option<Tagged>>,
    send_errors: Vec<Option<String>>,
    extra_result: Option<Tagged>,
    sender_done: bool,
}

#[derive(Debug, Default)]
pub struct Trace {
    pub ids: Vec<String>,
    pub results: Vec<Option<Tagged>>,
    pub expected: Vec<Tagged>,
    pub dropped: Vec<bool>,
    pub stray_ids: Vec<String>,
    /// requests whose reply the server sent twice
    pub repeated: Vec<usize>,
    /// requests awaited by a task that took the second copy of some reply off the transport
    pub in_task_that_read_a_repeat: Vec<bool>,
    pub extra_result: Option<Tagged>,
    pub extra_expected: Option<Tagged>,
    pub out_of_order: bool,
    pub parked: bool,
    pub gate_used: bool,
    pub slow_flush_used: bool,
    /// a stray reply bearing the id of the further request was taken off the transport before
    /// that request was sent (so it matched no outstanding request when it was read)
    pub future_id_stray_read_early: bool,
    /// ... or only afterwards (then it is, for the client, the reply to that request)
    pub future_id_stray_read_late: bool,
    pub drop_classes: Vec<String>,
    /// request indices whose reply was taken off the transport by a task that was dropped later
    pub consumed_by_dropped: Vec<usize>,
    pub steps: usize,
    pub max_outstanding: usize,
    pub log: Vec<String>,
    /// per request: Some(delivered) if its send was made to fail
    pub send_fault: Vec<Option<bool>>,
}

fn reply_for(kind: OpKind, id: &str, tag: &str) -> Vec<u8> {
    let body = match kind {
        OpKind::Get => format!("<data><t xmlns=\"urn:verif\">{tag}</t></data>"),
        OpKind::LockOk => "<ok/>".to_string(),
        OpKind::LockErr => format!(
            "<rpc-error><error-type>protocol</error-type><error-tag>lock-denied</error-tag>\
             <error-severity>error</error-severity><error-message>{tag}</error-message></rpc-error>"
        ),
    };
    format!("<rpc-reply xmlns=\"{NS_BASE}\" message-id=\"{id}\">{body}</rpc-reply>{MARKER}")
        .into_bytes()
}

fn expected_for(kind: OpKind, tag: &str) -> Tagged {
    match kind {
        OpKind::Get => Ok(format!("<t xmlns=\"urn:verif\">{tag}</t>")),
        OpKind::LockOk => Ok("ok".into()),
        OpKind::LockErr => Err(format!("rpc-error:{tag}")),
    }
}

fn norm_err(e: &netconf::Error) -> String {
    match e {
        netconf::Error::RpcError(errs) => {
            let d = format!("{errs:?}");
            // extract the tagged error-message
            match d.find("inner: \"tag-") {
                Some(i) => {
                    let rest = &d[i + 8..];
                    let end = rest.find('"').unwrap_or(rest.len());
                    format!("rpc-error:{}", &rest[..end])
                }
                None => format!("rpc-error:{d}"),
            }
        }
        other => format!("{other:?}"),
    }
}

async fn issue(
    sess: &mut Session<MemTransport>,
    kind: OpKind,
) -> Result<BoxFut, String> {
    match kind {
        OpKind::Get => sess
            .rpc::<GetConfig<Opaque>, _>(|b| b.source(Ds::Running.to_lib())?.finish())
            .await
            .map(|f| {
                Box::pin(async move {
                    f.await.map(|o| o.to_string()).map_err(|e| norm_err(&e))
                }) as BoxFut
            })
            .map_err(|e| format!("{e:?}")),
        OpKind::LockOk | OpKind::LockErr => sess
            .rpc::<Lock, _>(|b| b.target(Ds::Running.to_lib())?.finish())
            .await
            .map(|f| {
                Box::pin(async move {
                    f.await.map(|()| "ok".to_string()).map_err(|e| norm_err(&e))
                }) as BoxFut
            })
            .map_err(|e| format!("{e:?}")),
    }
}

/// Run one world to quiescence and return what happened.
pub fn run_world(w: &World) -> Result<Trace, String> {
    let n = w.ops.len();
    let wire = Wire::new();
    wire.push(hello_xml(&all_caps(), "4711").into_bytes());
    let gated = w.gate_closes > 0;
    if gated {
        wire.set_send_credits(Some(0));
    }
    if w.slow_flush {
        wire.set_send_lingers(true);
    }
    let mut send_fault: Vec<Option<bool>> = vec![None; n];
    for (i, delivered) in &w.send_faults {
        if n > 0 {
            send_fault[*i as usize % n] = Some(*delivered);
        }
    }
    {
        let mut st = wire.state.lock().unwrap();
        for (i, f) in send_fault.iter().enumerate() {
            if let Some(d) = f {
                // send 0 is the client hello
                st.send_faults.insert(i + 1, *d);
            }
        }
    }
    // the k-th <rpc> the server sees belongs to the k-th request whose bytes are delivered
    let wire_req: Vec<usize> = (0..n).filter(|i| send_fault[*i] != Some(false)).collect();
    let shared = Rc::new(RefCell::new(Shared {
        futures: (0..n).map(|_| None).collect(),
        results: vec![None; n],
        send_errors: vec![None; n],
        extra_result: None,
        sender_done: false,
    }));
    let phase2 = Gate::default();
    let mut exec = Exec::default();
    let mut trace = Trace {
        dropped: vec![false; n],
        send_fault: send_fault.clone(),
        ..Trace::default()
    };

    // sender task
    {
        let shared = shared.clone();
        let ops = w.ops.clone();
        let transport = wire.transport();
        let phase2 = phase2.clone();
        exec.spawn(
            "sender",
            Box::pin(async move {
                let mut sess = match Session::verif_new(transport).await {
                    Ok(s) => s,
                    Err(e) => {
                        shared.borrow_mut().send_errors[0] = Some(format!("establish: {e:?}"));
                        shared.borrow_mut().sender_done = true;
                        return;
                    }
                };
                for (i, kind) in ops.iter().enumerate() {
                    match issue(&mut sess, *kind).await {
                        Ok(f) => shared.borrow_mut().futures[i] = Some(f),
                        Err(e) => shared.borrow_mut().send_errors[i] = Some(e),
                    }
                }
                shared.borrow_mut().sender_done = true;
                phase2.wait().await;
                let r = match issue(&mut sess, OpKind::Get).await {
                    Ok(f) => f.await,
                    Err(e) => Err(format!("send: {e}")),
                };
                shared.borrow_mut().extra_result = Some(r);
            }),
        );
    }

    // group bookkeeping
    let mut group_ids: Vec<u8> = w.groups.clone();
    group_ids.resize(n, 0);
    let distinct_groups: BTreeSet<u8> = group_ids.iter().copied().collect();
    let mut group_task: std::collections::BTreeMap<u8, usize> = Default::default();
    let mut group_spawned: BTreeSet<u8> = BTreeSet::new();

    // server state
    let mut seen_requests = 0usize; // number of client messages processed (incl. hello)
    let mut received: Vec<(usize, String)> = Vec::new(); // (request index, message-id)
    let mut replied: BTreeSet<usize> = BTreeSet::new();
    let mut strays_left = w.strays;
    let mut gate_closed = gated;
    let mut drops_left = w.drops;
    let mut release_order: Vec<usize> = Vec::new();
    let mut tags: Vec<String> = vec![String::new(); n];
    let mut extra_id: Option<String> = None;
    let mut extra_replied = false;
    let mut sched = w.schedule.iter();
    let mut draining = false;
    let mut phase = 1;

    #[derive(Debug, Clone, Copy, PartialEq, Eq)]
    enum Act {
        Poll(usize),
        Release,
        Stray,
        GateClose,
        GateOpen,
        Drop(usize),
        FinishSend,
    }

    loop {
        trace.steps += 1;
        if trace.steps > 5000 {
            return Err("harness: step limit exceeded (livelock in the harness world?)".into());
        }
        // ingest what the client has put on the wire
        let sent = wire.sent();
        while seen_requests < sent.len() {
            if seen_requests > 0 {
                let id = message_id_lenient(&sent[seen_requests]).unwrap_or_default();
                if let Some(&idx) = wire_req.get(received.len()) {
                    tags[idx] = format!("tag-{idx}-{id}");
                    if w.big_reply.is_some_and(|b| b as usize % n == idx) {
                        tags[idx].push_str(&"x".repeat(70_000));
                    }
                    received.push((idx, id.clone()));
                    trace.ids.push(id);
                } else {
                    trace.ids.push(id.clone());
                    extra_id = Some(id);
                }
            }
            seen_requests += 1;
        }
        let outstanding = received.len() - replied.len();
        trace.max_outstanding = trace.max_outstanding.max(outstanding);
        // spawn waiter tasks whose futures are all available
        for g in &distinct_groups {
            if group_spawned.contains(g) {
                continue;
            }
            let members: Vec<usize> = (0..n).filter(|i| group_ids[*i] == *g).collect();
            let ready = {
                let sh = shared.borrow();
                members
                    .iter()
                    .all(|i| sh.futures[*i].is_some() || sh.send_errors[*i].is_some())
            };
            if !ready {
                continue;
            }
            let futs: Vec<(usize, BoxFut)> = {
                let mut sh = shared.borrow_mut();
                members
                    .iter()
                    .filter_map(|i| sh.futures[*i].take().map(|f| (*i, f)))
                    .collect()
            };
            group_spawned.insert(*g);
            if futs.is_empty() {
                continue;
            }
            let shared2 = shared.clone();
            let sequential = w.sequential;
            let t = exec.spawn(
                &format!("waiter-group-{g}"),
                Box::pin(async move {
                    if sequential || futs.len() == 1 {
                        for (i, f) in futs {
                            let r = f.await;
                            shared2.borrow_mut().results[i] = Some(r);
                        }
                    } else {
                        let idx: Vec<usize> = futs.iter().map(|(i, _)| *i).collect();
                        let rs =
                            futures::future::join_all(futs.into_iter().map(|(_, f)| f)).await;
                        let mut sh = shared2.borrow_mut();
                        for (i, r) in idx.into_iter().zip(rs) {
                            sh.results[i] = Some(r);
                        }
                    }
                }),
            );
            group_task.insert(*g, t);
        }

        // enabled actions
        let mut acts: Vec<Act> = exec.runnable().into_iter().map(Act::Poll).collect();
        let unreplied: Vec<usize> = received
            .iter()
            .map(|(i, _)| *i)
            .filter(|i| !replied.contains(i))
            .collect();
        let extra_pending = extra_id.is_some() && !extra_replied;
        if !unreplied.is_empty() || extra_pending {
            acts.push(Act::Release);
        }
        if !draining {
            if strays_left > 0 && !received.is_empty() {
                acts.push(Act::Stray);
            }
            if gate_closed && wire.send_waiting() {
                // hand out one credit: exactly one pending send may complete
                acts.push(Act::GateOpen);
            }
            if wire.send_lingering() {
                acts.push(Act::FinishSend);
            }
            if drops_left > 0 && phase == 1 {
                for (g, t) in &group_task {
                    if !exec.tasks[*t].done {
                        let _ = g;
                        acts.push(Act::Drop(*t));
                    }
                }
            }
        } else if gate_closed {
            gate_closed = false;
            wire.set_send_credits(None);
            trace.log.push("sends ungated (drain)".into());
            continue;
        } else if wire.send_lingering() {
            wire.set_send_lingers(false);
            trace.log.push("sends complete at once (drain)".into());
            continue;
        }
        let act = if acts.is_empty() {
            if phase == 1 {
                // quiescence of phase 1: start phase 2 (one further request)
                phase = 2;
                draining = true;
                phase2.open();
                continue;
            }
            break;
        } else if draining {
            // fair drain: gate first, then releases, then polls in order
            *acts
                .iter()
                .find(|a| matches!(a, Act::GateOpen))
                .or_else(|| acts.iter().find(|a| matches!(a, Act::Release)))
                .unwrap_or(&acts[0])
        } else {
            match sched.next() {
                Some(c) => acts[pick_idx(*c, acts.len())],
                None => {
                    draining = true;
                    continue;
                }
            }
        };
        match act {
            Act::Poll(t) => {
                exec.poll(t);
            }
            Act::Release => {
                if let Some(&i) = unreplied.iter().min_by_key(|i| (w.arrival.get(**i).copied().unwrap_or(0), **i)) {
                    let id = &received
                        .iter()
                        .find(|(ri, _)| *ri == i)
                        .expect("unreplied requests were received")
                        .1;
                    let mut reply = reply_for(w.ops[i], id, &tags[i]);
                    if w.xml_decl & (1 << (i % 8)) != 0 {
                        let mut with_decl = b"<?xml version=\"1.0\" encoding=\"UTF-8\"?>\n".to_vec();
                        with_decl.append(&mut reply);
                        reply = with_decl;
                    }
                    wire.push(reply);
                    replied.insert(i);
                    release_order.push(i);
                    trace.log.push(format!("release reply {i}"));
                } else if let Some(id) = &extra_id {
                    wire.push(reply_for(OpKind::Get, id, "tag-extra"));
                    extra_replied = true;
                }
            }
            Act::Stray => {
                strays_left -= 1;
                if let (true, Some(&i)) = (w.repeat_strays, release_order.last()) {
                    let id = &received.iter().find(|(ri, _)| *ri == i).expect("released replies answer received requests").1;
                    wire.push(reply_for(w.ops[i], id, &tags[i]));
                    if !trace.repeated.contains(&i) {
                        trace.repeated.push(i);
                    }
                    trace.log.push(format!("repeat reply {i}"));
                    continue;
                }
                // an id nobody asked for: far away, or (every other time) the very id the next
                // request of the session is going to get
                let id = if w.arrival.first().is_some_and(|a| a % 2 == 1) {
                    format!("{}", n + 1 + trace.stray_ids.len())
                } else {
                    format!("9{:03}", trace.stray_ids.len())
                };
                wire.push(
                    format!(
                        "<rpc-reply xmlns=\"{NS_BASE}\" message-id=\"{id}\"><data><t xmlns=\"urn:verif\">STRAY</t></data></rpc-reply>{MARKER}"
                    )
                    .into_bytes(),
                );
                trace.stray_ids.push(id);
                trace.log.push("inject stray".into());
            }
            Act::GateClose => {}
            Act::FinishSend => {
                trace.slow_flush_used = true;
                wire.finish_send();
                trace.log.push("let a delivered send return".into());
            }
            Act::GateOpen => {
                trace.gate_used = true;
                wire.set_send_credits(Some(1));
                trace.log.push("let one send through".into());
            }
            Act::Drop(t) => {
                drops_left -= 1;
                let polls = exec.tasks[t].polls;
                let class = if polls == 0 {
                    "never-polled"
                } else if gate_closed && wire.send_waiting() {
                    "polled,while-a-send-is-pending"
                } else {
                    "polled"
                };
                trace.drop_classes.push(class.to_string());
                trace.log.push(format!("drop {} ({class})", exec.tasks[t].label));
                exec.cancel(t);
                for (g, tt) in &group_task {
                    if *tt == t {
                        for i in 0..n {
                            if group_ids[i] == *g {
                                trace.dropped[i] = true;
                            }
                        }
                    }
                }
                // which replies had this task taken off the transport?
                let st = wire.state.lock().unwrap();
                for (task, msg) in &st.recv_log {
                    if *task == t {
                        if let Some(id) = message_id_lenient(msg) {
                            if let Some((i, _)) = received.iter().find(|(_, rid)| *rid == id) {
                                trace.consumed_by_dropped.push(*i);
                            }
                        }
                    }
                }
            }
        }
    }
    // a stray that bears the id of the further request: when was it read?
    if let Some(xid) = &extra_id {
        let sent = wire.sent();
        let extra_index = sent
            .iter()
            .rposition(|m| message_id_lenient(m).as_deref() == Some(xid.as_str()));
        let st = wire.state.lock().unwrap();
        for (k, (_, msg)) in st.recv_log.iter().enumerate() {
            if message_id_lenient(msg).as_deref() == Some(xid.as_str())
                && String::from_utf8_lossy(msg).contains("STRAY")
            {
                let sent_then = st.recv_sent.get(k).copied().unwrap_or(usize::MAX);
                if extra_index.is_some_and(|x| sent_then <= x) {
                    trace.future_id_stray_read_early = true;
                } else {
                    trace.future_id_stray_read_late = true;
                }
            }
        }
    }
    // out-of-order arrival / parking
    trace.out_of_order = release_order.windows(2).any(|p| p[0] > p[1]);
    {
        let st = wire.state.lock().unwrap();
        for (task, msg) in &st.recv_log {
            if let Some(id) = message_id_lenient(msg) {
                if let Some((i, _)) = received.iter().find(|(_, rid)| *rid == id) {
                    // popped by a task that does not own request i
                    let owner = group_task.get(&group_ids[*i]).copied();
                    if owner != Some(*task) {
                        trace.parked = true;
                    }
                }
            }
        }
    }
    {
        let st = wire.state.lock().unwrap();
        let mut seen: BTreeSet<String> = BTreeSet::new();
        let mut tasks: BTreeSet<usize> = BTreeSet::new();
        for (task, msg) in &st.recv_log {
            if let Some(id) = message_id_lenient(msg) {
                if !seen.insert(id) {
                    tasks.insert(*task);
                }
            }
        }
        trace.in_task_that_read_a_repeat = (0..n)
            .map(|i| group_task.get(&group_ids[i]).is_some_and(|t| tasks.contains(t)))
            .collect();
    }
    let sh = shared.borrow();
    trace.results = sh.results.clone();
    for i in 0..n {
        if let Some(e) = &sh.send_errors[i] {
            trace.results[i] = Some(Err(format!("send: {e}")));
        }
    }
    trace.expected = (0..n).map(|i| expected_for(w.ops[i], &tags[i])).collect();
    trace.extra_result = sh.extra_result.clone();
    trace.extra_expected = Some(expected_for(OpKind::Get, "tag-extra"));
    Ok(trace)
}

fn judge(w: &World, prop_id: &str, obs: &mut Obs) {
    let trace = match catch(|| run_world(w)) {
        Err((loc, msg)) => {
            obs.fail(format!("panic:{loc}"), format!("panic at {loc}: {msg}"));
            return;
        }
        Ok(Err(e)) => {
            obs.fail("harness-sanity:world", e);
            return;
        }
        Ok(Ok(t)) => t,
    };
    let n = w.ops.len();
    obs.class(format!("n={n}"));
    if trace.out_of_order {
        obs.class("arrival:out-of-order");
    }
    if trace.parked {
        obs.class("reply-parked-for-another-waiter");
    }
    if trace.gate_used {
        obs.class("send-gated");
    }
    if trace.slow_flush_used {
        obs.class("send-returns-after-the-server-could-answer");
    }
    if w.big_reply.is_some() {
        obs.class("one-reply-of-70-KiB");
    }
    if !trace.stray_ids.is_empty() {
        obs.class("stray-reply");
    }
    let distinct_groups: BTreeSet<u8> = w.groups.iter().copied().collect();
    obs.class(if distinct_groups.len() == n {
        "placement:separate-tasks"
    } else if w.sequential {
        "placement:grouped-sequential"
    } else {
        "placement:grouped-joined"
    });
    for c in &trace.drop_classes {
        obs.class(format!("drop:{c}"));
    }
    if prop_id == "C05" {
        obs.nontrivial = trace.max_outstanding >= 2 && (trace.out_of_order || trace.parked);
    } else {
        obs.nontrivial = !trace.drop_classes.is_empty()
            && trace.dropped.iter().any(|d| !*d)
            && trace.max_outstanding >= 2;
    }
    // (1) fresh ids
    let ids: BTreeSet<&String> = trace.ids.iter().collect();
    if ids.len() != trace.ids.len() || trace.ids.iter().any(String::is_empty) {
        obs.fail(
            "message-id-reused",
            format!("message-ids on the wire are not all fresh: {:?}", trace.ids),
        );
    }
    // the reply to a request whose send was reported as failed has no owner either
    let strays = !trace.stray_ids.is_empty() || trace.send_fault.iter().any(|f| *f == Some(true));
    // a reader that takes the second copy of a reply off the transport fails (RequestComplete /
    // MessageIdCollision on the unchanged tree) - tolerated like a reader meeting a stray, for
    // every request awaited by the task that read it (which of a task's futures did the read is
    // not observable). Every other request must get its reply - in particular the owner of the
    // repeated id when somebody else read the second copy
    let repeats = !trace.repeated.is_empty();
    if repeats {
        obs.class("repeated-reply");
    }
    let met_repeat = |e: &str| e.contains("RequestComplete") || e.contains("MessageIdCollision");
    for f in trace.send_fault.iter().flatten() {
        obs.class(if *f { "send-fault:delivered" } else { "send-fault:not-delivered" });
    }
    for i in 0..n {
        if trace.dropped[i] {
            continue;
        }
        if trace.send_fault[i].is_some() {
            match &trace.results[i] {
                Some(Err(e)) if e.starts_with("send:") => {}
                other => obs.fail(
                    "failed-send-not-reported",
                    format!("request {i}: the transport reported an I/O error for its send but the caller got {other:?}"),
                ),
            }
            continue;
        }
        match &trace.results[i] {
            None => {
                let sig = if trace.consumed_by_dropped.contains(&i) {
                    "waits-forever:reply-taken-by-a-dropped-reader"
                } else if trace.drop_classes.is_empty() {
                    "waits-forever"
                } else {
                    "waits-forever:after-drop"
                };
                obs.fail(
                    sig,
                    format!(
                        "request {i} ({:?}, id {:?}) never resolved although the server answered every request; trace: {:?}",
                        w.ops[i],
                        trace.ids.get(i),
                        trace.log
                    ),
                );
            }
            Some(r) if *r == trace.expected[i] => {}
            Some(Err(e)) if strays && e.contains("RequestNotFound") => {
                obs.class("reader-met-stray(tolerated)");
            }
            Some(Err(e)) if repeats && met_repeat(e) && trace.in_task_that_read_a_repeat.get(i) == Some(&true) => {
                obs.class("reader-met-repeated-reply(tolerated)");
            }
            Some(r) if repeats && trace.repeated.contains(&i) => {
                obs.fail(
                    "reply-lost-when-the-server-repeated-it",
                    format!(
                        "request {i} ({:?}): the server sent its reply twice and the caller got {r:?}, expected {:?}; trace: {:?}",
                        w.ops[i], trace.expected[i], trace.log
                    ),
                );
            }
            Some(Err(e)) if e.starts_with("send:") => {
                obs.fail("send-failed", format!("request {i}: {e}"));
            }
            Some(r) => {
                let foreign = matches!(r, Ok(v) if v.contains("tag-") || v.contains("STRAY"))
                    || matches!(r, Err(v) if v.contains("rpc-error:tag-"));
                let sig = if foreign {
                    if format!("{r:?}").contains("STRAY") {
                        "stray-reply-delivered"
                    } else {
                        "reply-of-another-request-delivered"
                    }
                } else {
                    "unexpected-result"
                };
                obs.fail(
                    sig,
                    format!(
                        "request {i} ({:?}) resolved with {r:?}, expected {:?}; trace: {:?}",
                        w.ops[i], trace.expected[i], trace.log
                    ),
                );
            }
        }
    }
    // the session stays usable
    match (&trace.extra_result, &trace.extra_expected) {
        (Some(r), Some(e)) if r == e => {}
        (Some(Err(e)), _) if strays && e.contains("RequestNotFound") => {}
        (Some(Err(e)), _) if repeats && met_repeat(e) => {}
        (r, _) => {
            // only judged when every earlier reply was consumed or parked; a leftover reply in the
            // transport (owner dropped / failed on a stray) is read first by the extra request's
            // reader and parked or rejected according to the documented rules
            let leftover_possible = strays || repeats || trace.dropped.iter().any(|d| *d);
            if !leftover_possible || r.is_none() {
                obs.fail(
                    if r.is_none() {
                        "further-request-waits-forever"
                    } else {
                        "further-request-wrong-result"
                    },
                    format!("the request issued after quiescence gave {r:?}; trace: {:?}", trace.log),
                );
            } else if let Some(Ok(v)) = r {
                if v.contains("STRAY") && trace.future_id_stray_read_late && !trace.future_id_stray_read_early {
                    // the server "answered" the request before it was sent, but the client read
                    // that message only after the request was outstanding: for the client it is
                    // the reply bearing the message-id of an outstanding request
                    obs.class("reply-with-a-future-id-read-after-its-request(tolerated)");
                } else if v.contains("STRAY") {
                    obs.fail(
                        "stray-reply-delivered",
                        format!("the request issued after quiescence was given a reply that had been read off the transport before that request existed: Ok({v:?}); trace: {:?}", trace.log),
                    );
                } else if v != "<t xmlns=\"urn:verif\">tag-extra</t>" {
                    obs.fail(
                        "further-request-wrong-result",
                        format!("the request issued after quiescence gave Ok({v:?})"),
                    );
                }
            }
        }
    }
}

fn world_strategy(max_n: usize, drops: bool, sched_len: usize) -> BoxedStrategy<World> {
    (1..=max_n)
        .prop_flat_map(move |n| {
            (
                prop::collection::vec(
                    prop_oneof![3 => Just(OpKind::Get), 1 => Just(OpKind::LockOk), 1 => Just(OpKind::LockErr)],
                    n,
                ),
                prop::collection::vec(any::<u16>(), n),
                prop_oneof![
                    3 => Just((0..n as u8).collect::<Vec<u8>>()),
                    2 => prop::collection::vec(0u8..2, n),
                    1 => Just(vec![0u8; n]),
                ],
                any::<bool>(),
                prop_oneof![4 => Just(0u8), 1 => 1u8..3],
                0u8..2,
                if drops { (1u8..3).boxed() } else { Just(0u8).boxed() },
                prop::collection::vec(any::<u16>(), 0..sched_len),
                prop_oneof![
                    3 => Just(Vec::new()),
                    1 => prop::collection::vec((0..n as u8, any::<bool>()), 1..3),
                ],
                prop::bool::weighted(0.3),
                prop::option::weighted(0.08, 0u8..6),
                (any::<bool>(), prop_oneof![2 => Just(0u8), 1 => any::<u8>()]),
            )
        })
        .prop_map(
            |(ops, arrival, groups, sequential, strays, gate_closes, drops, schedule, send_faults, slow_flush, big_reply, (repeat_strays, xml_decl))| World {
                ops,
                arrival,
                groups,
                sequential,
                strays,
                gate_closes,
                drops,
                schedule,
                send_faults,
                slow_flush,
                big_reply,
                repeat_strays,
                xml_decl,
            },
        )
        .boxed()
}

pub struct C05;

impl Prop for C05 {
    type Case = World;
    fn name(&self) -> &'static str {
        "schedules"
    }
    fn rule(&self) -> String {
        "worlds of 1..6 pipelined requests (get-config with tagged data, lock answered ok or with a \
         tagged rpc-error; a third of the worlds put an XML declaration in front of some replies) x arrival permutation x placement of the reply futures (one task each / \
         grouped and joined / grouped and awaited sequentially) x up to 2 stray replies (unknown id, the next request's id, or a repeat of the reply released last) x up to 2 \
         closures of the send gate x a generated schedule (each step picks among: poll a woken \
         task, release the next reply, inject a stray, let one pending send through); after the schedule \
         the world is drained fairly and one further request is issued. Non-trivial = at least 2 \
         requests outstanding at once and (replies released out of order or a reply taken off \
         the transport by a task that does not own it); distinct by world"
            .into()
    }
    fn cases(&self, tier: Tier) -> u32 {
        tier.pick(60_000, 3_000_000)
    }
    fn strategy(&self, tier: Tier) -> BoxedStrategy<World> {
        world_strategy(6, false, tier.pick(40, 80))
    }
    fn check(&self, w: &World) -> Obs {
        let mut obs = Obs::default();
        judge(w, "C05", &mut obs);
        obs
    }
    fn assumptions(&self) -> Vec<String> {
        assumptions()
    }
}

fn assumptions() -> Vec<String> {
    vec![
        "single OS thread: every poll-level interleaving is reachable, races inside tokio::sync::Mutex itself are not (tokio's mutex is trusted)".into(),
        "requests are issued by one task (Session::rpc takes &mut self); reply futures are awaited anywhere".into(),
        "a reader that meets a stray reply may fail with RequestNotFound (tolerated); only delivery of foreign content is a violation".into(),
            "in half of the worlds with strays the stray is a repeat of the reply released last (a server that answers twice): the requests of the task that took the second copy off the transport may fail with RequestComplete / MessageIdCollision (tolerated); every other request - in particular the owner of the repeated id - must get its reply".into(),
    ]
}

pub struct C18;

impl Prop for C18 {
    type Case = World;
    fn name(&self) -> &'static str {
        "drops"
    }
    fn rule(&self) -> String {
        "the worlds of C05 plus 1..2 drop actions: a waiter task (one reply future, or a group) is \
         dropped at whatever suspension point the schedule has brought it to (never polled / \
         polled / polled while a send is pending, i.e. while the session's request map is locked). \
         Non-trivial = at least one drop happened, at least one request survives and 2 requests \
         were outstanding at once; distinct by world"
            .into()
    }
    fn cases(&self, tier: Tier) -> u32 {
        tier.pick(80_000, 4_000_000)
    }
    fn strategy(&self, tier: Tier) -> BoxedStrategy<World> {
        world_strategy(5, true, tier.pick(40, 80))
    }
    fn check(&self, w: &World) -> Obs {
        let mut obs = Obs::default();
        judge(w, "C18", &mut obs);
        obs
    }
    fn assumptions(&self) -> Vec<String> {
        assumptions()
    }
}

pub fn property_c05() -> Property {
    Property {
        id: "C05",
        level: "exploration",
        parts: vec![Box::new(PropPart(C05))],
    }
}

pub fn property_c18() -> Property {
    Property {
        id: "C18",
        level: "exploration",
        parts: vec![
            Box::new(PropPart(C18)),
            Box::new(PropPart(crate::props::c18rt::C18Real)),
        ],
    }
}
