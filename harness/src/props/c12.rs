//! C12 — session establishment negotiates a version both peers can actually speak.
//!
//! Part `hello-matrix` (engine F): generated server hellos x both orders of the hello exchange;
//! oracle = the establishment predicate of the property, evaluated against the capabilities the
//! client itself put on the wire.
//! Part `framing` (engine E, real TLS transport) lives in `e_transports.rs`.

use std::collections::BTreeSet;

use netconf::Session;
use proptest::prelude::*;
use serde::{Deserialize, Serialize};

use crate::{
    core::{Obs, Prop, PropPart, Property, Tier},
    mem::{drive_pinned, HandlerResult, Wire},
    props::c09::{CapSet, SCHEMES, STD_CAPS},
    sess::*,
    xmlgen::{render_message, Ns, Style, X},
    xmlstrict::parse_document,
};

#[derive(Debug, Clone, PartialEq, Eq, Serialize, Deserialize)]
pub enum Sid {
    Valid(u32),
    LeadingZeros(u32),
    /// a valid number with white space around it (xs:unsignedInt collapses it): 0 ` n `,
    /// 1 line break and indentation on both sides, 2 a leading tab, 3 a trailing space
    Padded(u32, u8),
    Zero,
    TooBig,
    Negative,
    Empty,
    NonNumeric,
    Missing,
    Duplicated(u32),
}

#[derive(Debug, Clone, PartialEq, Eq, Serialize, Deserialize)]
pub enum CapsElem {
    Once,
    Missing,
    Twice,
}

#[derive(Debug, Clone, PartialEq, Eq, Serialize, Deserialize)]
pub enum Malform {
    None,
    Truncated,
    WrongRootName,
    WrongNamespace,
    NotXml,
    UnclosedTag,
    /// content after the root element's end tag (0 = an element, 1 = character data, 2 = a stray
    /// end tag, 3 = a second `<hello>`, 4 = an `<rpc-reply>`): not a well-formed document
    Trailing(u8),
    /// character data before the root element
    LeadingText,
    /// a byte sequence that is not UTF-8 inside a comment before the root (0) or after it (1), or
    /// inside the XML declaration's encoding name position of a comment-free hello (2): NETCONF
    /// messages are UTF-8 (RFC 6241 section 3), so this is not a well-formed message
    NotUtf8InComment(u8),
}

#[derive(Debug, Clone, Serialize, Deserialize)]
pub struct Case {
    pub base10: bool,
    pub base11: bool,
    pub caps: CapSet,
    pub unknown_caps: Vec<String>,
    pub duplicate_first_cap: bool,
    pub sid: Sid,
    pub caps_elem: CapsElem,
    pub sid_first: bool,
    pub prefixed: bool,
    pub malform: Malform,
    /// server speaks only after it has read the client's hello (send gate closed at first)
    pub server_waits_for_client: bool,
    /// `<capabilities>` holds an element that is *not* a capability advertisement but carries
    /// the :base:1.0 URI (the real list then does not): 0 = `<capability>` in a foreign namespace,
    /// 1 = a base-namespace element with another name, 2 = a `<session-id>` with the URI as text
    #[serde(default)]
    pub foreign_cap: Option<u8>,
}

/// the hello as an abstract tree (tree-level malformations applied) and its capability URIs
pub fn hello_tree(case: &Case) -> (X, Vec<String>) {
    let mut uris: Vec<String> = Vec::new();
    if case.base10 {
        uris.push(BASE10.into());
    }
    if case.base11 {
        uris.push(BASE11.into());
    }
    for u in case.caps.uris() {
        if u != BASE11 && u != BASE10 {
            uris.push(u);
        }
    }
    uris.extend(case.unknown_caps.iter().cloned());
    // the base URIs need not come first
    if !uris.is_empty() {
        let k = (case.caps.order >> 3) as usize % uris.len();
        uris.rotate_left(k);
    }
    if case.duplicate_first_cap && !uris.is_empty() {
        uris.push(uris[0].clone());
    }
    let mut caps = X::container(Ns::Base, "capabilities");
    for u in &uris {
        caps = caps.kid(X::leaf(Ns::Base, "capability", u));
    }
    if let Some(k) = case.foreign_cap {
        caps = caps.kid(match k % 3 {
            0 => X::leaf(Ns::Other("urn:example:vendor-extension".into()), "capability", BASE10),
            1 => X::leaf(Ns::Base, "supported", BASE10),
            _ => X::leaf(Ns::Base, "session-id", BASE10),
        });
    }
    let sid_elems: Vec<X> = match &case.sid {
        Sid::Valid(n) => vec![X::leaf(Ns::Base, "session-id", &n.to_string())],
        Sid::LeadingZeros(n) => vec![X::leaf(Ns::Base, "session-id", &format!("000{n}"))],
        Sid::Padded(n, k) => vec![X::new(Ns::Base, "session-id").text(&match k % 4 {
            0 => format!(" {n} "),
            1 => format!("\n    {n}\n  "),
            2 => format!("\t{n}"),
            _ => format!("{n} "),
        })],
        Sid::Zero => vec![X::leaf(Ns::Base, "session-id", "0")],
        Sid::TooBig => vec![X::leaf(Ns::Base, "session-id", "4294967296")],
        Sid::Negative => vec![X::leaf(Ns::Base, "session-id", "-5")],
        Sid::Empty => vec![X::new(Ns::Base, "session-id").text("")],
        Sid::NonNumeric => vec![X::leaf(Ns::Base, "session-id", "abc")],
        Sid::Missing => vec![],
        Sid::Duplicated(n) => vec![
            X::leaf(Ns::Base, "session-id", &n.to_string()),
            X::leaf(Ns::Base, "session-id", &n.to_string()),
        ],
    };
    let caps_elems: Vec<X> = match case.caps_elem {
        CapsElem::Once => vec![caps],
        CapsElem::Missing => vec![],
        CapsElem::Twice => vec![caps.clone(), caps],
    };
    let (root_ns, root_name) = match case.malform {
        Malform::WrongRootName => (Ns::Base, "hallo"),
        Malform::WrongNamespace => (Ns::Other("urn:example:not-netconf".into()), "hello"),
        _ => (Ns::Base, "hello"),
    };
    let mut root = X::container(root_ns, root_name);
    if case.sid_first {
        for s in sid_elems {
            root = root.kid(s);
        }
        for c in caps_elems {
            root = root.kid(c);
        }
    } else {
        for c in caps_elems {
            root = root.kid(c);
        }
        for s in sid_elems {
            root = root.kid(s);
        }
    }
    (root, uris)
}

pub fn hello_doc(case: &Case) -> (String, Vec<String>) {
    let (root, uris) = hello_tree(case);
    let style = Style {
        base_prefix: case.prefixed.then(|| "nc".to_string()),
        ..Style::canonical()
    };
    let mut msg = render_message(&root, &style);
    match case.malform {
        Malform::Truncated => {
            let body = msg.strip_suffix(MARKER).unwrap().to_string();
            let cut = body.len() * 2 / 3;
            let cut = (0..=cut).rev().find(|i| body.is_char_boundary(*i)).unwrap_or(0);
            msg = format!("{}{MARKER}", &body[..cut]);
        }
        Malform::NotXml => msg = format!("SSH-2.0-not-netconf\n{MARKER}"),
        Malform::Trailing(k) => {
            let body = msg.strip_suffix(MARKER).unwrap().trim_end().to_string();
            let close = if case.prefixed { "</nc:hello>" } else { "</hello>" };
            let extra = match k % 5 {
                0 => "<junk/>".to_string(),
                1 => "garbage".to_string(),
                2 => close.to_string(),
                3 => body.clone(),
                _ => format!("<rpc-reply xmlns=\"{NS_BASE}\" message-id=\"1\"><ok/></rpc-reply>"),
            };
            msg = format!("{body}{extra}\n{MARKER}");
        }
        Malform::LeadingText => msg = format!("hello {msg}"),
        Malform::UnclosedTag => {
            msg = msg
                .replace("</capabilities>", "")
                .replace("</nc:capabilities>", "")
                .replace("</session-id>", "")
                .replace("</nc:session-id>", "");
        }
        _ => {}
    }
    (msg, uris)
}

/// what the property says about this hello, given the client's advertised base versions
fn expected(
    case: &Case,
    hello: &str,
    client_base: &BTreeSet<&'static str>,
) -> Result<(&'static str, u32), &'static str> {
    let ill_formed = parse_document(hello.strip_suffix(MARKER).unwrap_or(hello)).is_err();
    match case.malform {
        Malform::None => {}
        Malform::WrongRootName | Malform::WrongNamespace | Malform::NotUtf8InComment(_) => {
            return Err("hello malformed")
        }
        // syntactic damage: only counts if the document really is ill-formed now
        _ if ill_formed => return Err("hello malformed"),
        _ => {}
    }
    if case.caps_elem != CapsElem::Once {
        return Err("capabilities element missing or duplicated");
    }
    let sid = match &case.sid {
        Sid::Valid(n) | Sid::LeadingZeros(n) | Sid::Padded(n, _) => *n,
        Sid::Zero => return Err("session-id 0"),
        Sid::TooBig | Sid::Negative | Sid::Empty | Sid::NonNumeric => {
            return Err("session-id not a 32-bit number")
        }
        Sid::Missing => return Err("session-id missing"),
        Sid::Duplicated(_) => return Err("session-id duplicated"),
    };
    let v11 = case.base11 && client_base.contains(BASE11);
    let v10 = case.base10 && client_base.contains(BASE10);
    if v11 {
        Ok(("V1_1", sid))
    } else if v10 {
        Ok(("V1_0", sid))
    } else {
        Err("no common base version")
    }
}

pub fn sid_strategy() -> impl Strategy<Value = Sid> {
    prop_oneof![
        8 => prop_oneof![1u32..1000, Just(u32::MAX), any::<u32>().prop_map(|n| n.max(1))].prop_map(Sid::Valid),
        1 => (1u32..1000).prop_map(Sid::LeadingZeros),
        1 => (prop_oneof![1u32..1000, Just(u32::MAX)], 0u8..4).prop_map(|(n, k)| Sid::Padded(n, k)),
        1 => Just(Sid::Zero),
        1 => Just(Sid::TooBig),
        1 => Just(Sid::Negative),
        1 => Just(Sid::Empty),
        1 => Just(Sid::NonNumeric),
        1 => Just(Sid::Missing),
        1 => (1u32..1000).prop_map(Sid::Duplicated),
    ]
}

pub struct HelloMatrix;

impl Prop for HelloMatrix {
    type Case = Case;
    fn name(&self) -> &'static str {
        "hello-matrix"
    }
    fn rule(&self) -> String {
        "server hellos: base versions {1.0, 1.1, both, neither} x any subset of the standard \
         capabilities and URL schemes x unknown capability URIs (incl. look-alikes of the base URIs: with a query, a fragment, a suffix, another URN prefix) x duplicated capability x \
         session-id {valid incl. 2^32-1, leading zeros, 0, 2^32, negative, empty, non-numeric, \
         missing, duplicated} x capabilities element {once, missing, twice} x child order x \
         prefixed/default namespace x malformed documents x both orders of the hello exchange \
         (server first / server only after it has read the client's hello, send gate closed at \
         first). Non-trivial = a hello that is one defect away from acceptable (exactly one of the \
         refusal reasons) or an acceptable hello with both base versions or 1.1 only; distinct by hello"
            .into()
    }
    fn cases(&self, tier: Tier) -> u32 {
        tier.pick(60_000, 2_000_000)
    }
    fn strategy(&self, _tier: Tier) -> BoxedStrategy<Case> {
        (
            (any::<bool>(), any::<bool>(), any::<u16>(), any::<bool>(), any::<u8>()),
            prop::collection::vec(
                prop_oneof![
                    1 => Just("urn:ietf:params:netconf:capability:notification:1.0".to_string()),
                    1 => Just("http://xml.juniper.net/dmi/system/1.0".to_string()),
                    1 => Just("urn:ietf:params:xml:ns:yang:ietf-netconf-monitoring?module=ietf-netconf-monitoring&revision=2010-10-04".to_string()),
                    1 => "urn:x-[a-z]{1,8}:[a-z0-9]{1,8}".prop_map(|s| s),
                    // URIs that only look like a base capability: they are different URIs (RFC
                    // 6241 8.1: the capability is identified by the URI) and say nothing about
                    // the base versions the server speaks
                    3 => (any::<bool>(), 0u8..8).prop_map(|(v11, k)| {
                        let base = if v11 { "urn:ietf:params:netconf:base:1.1" } else { "urn:ietf:params:netconf:base:1.0" };
                        match k {
                            0 => format!("{base}?module=ietf-netconf"),
                            1 => format!("{base}#frag"),
                            2 => format!("{base}/"),
                            3 => format!("{base}.0"),
                            4 => format!("{base}0"),
                            5 => base.replace("urn:ietf:params:netconf", "urn:ietf:params:xml:ns:netconf"),
                            6 => base.replace(":base:", ":capability:base:"),
                            _ => format!("x{base}"),
                        }
                    }),
                ],
                0..3,
            ),
            prop::bool::weighted(0.15),
            sid_strategy(),
            prop_oneof![8 => Just(CapsElem::Once), 1 => Just(CapsElem::Missing), 1 => Just(CapsElem::Twice)],
            any::<bool>(),
            any::<bool>(),
            prop_oneof![
                12 => Just(Malform::None),
                1 => Just(Malform::Truncated),
                1 => Just(Malform::WrongRootName),
                1 => Just(Malform::WrongNamespace),
                1 => Just(Malform::NotXml),
                1 => Just(Malform::UnclosedTag),
                2 => (0u8..5).prop_map(Malform::Trailing),
                1 => Just(Malform::LeadingText),
                1 => (0u8..3).prop_map(Malform::NotUtf8InComment),
            ],
            any::<bool>(),
        )
            .prop_map(
                |(
                    (b10, b11, std, url, schemes),
                    unknown_caps,
                    duplicate_first_cap,
                    sid,
                    caps_elem,
                    sid_first,
                    prefixed,
                    malform,
                    server_waits_for_client,
                )| Case {
                    // one case in sixteen: the :base:1.0 URI only inside a non-capability element
                    foreign_cap: (std >> 13 == 0 && schemes >> 5 < 4).then_some((schemes >> 5) % 3),
                    base10: b10 && !(std >> 13 == 0 && schemes >> 5 < 4),
                    base11: b11,
                    caps: CapSet {
                        std: std & ((1 << STD_CAPS.len()) - 1),
                        base11: b11,
                        url,
                        schemes: schemes & ((1 << SCHEMES.len()) - 1),
                        order: (std >> 10) as u8 | ((schemes >> 5) << 6),
                        lookalikes: 0,
                    },
                    unknown_caps,
                    duplicate_first_cap,
                    sid,
                    caps_elem,
                    sid_first,
                    prefixed,
                    malform,
                    server_waits_for_client,
                },
            )
            .boxed()
    }
    fn check(&self, case: &Case) -> Obs {
        let mut obs = Obs::default();
        let (hello, uris) = hello_doc(case);
        // the bytes on the wire (differ from the text only for the not-UTF-8 malformation)
        let hello_bytes: Vec<u8> = match case.malform {
            Malform::NotUtf8InComment(k) => {
                let text = hello.strip_suffix(MARKER).unwrap_or(&hello);
                let comment: &[u8] = match k % 3 {
                    0 | 1 => b"<!-- router-\xE9 -->",
                    _ => b"<!-- \x80 -->",
                };
                let mut v = Vec::new();
                if k % 3 == 1 {
                    v.extend_from_slice(text.as_bytes());
                    v.extend_from_slice(comment);
                } else {
                    v.extend_from_slice(comment);
                    v.extend_from_slice(text.as_bytes());
                }
                v.extend_from_slice(MARKER.as_bytes());
                v
            }
            _ => hello.clone().into_bytes(),
        };
        let wire = Wire::new();
        if case.server_waits_for_client {
            wire.set_send_gate(true);
            let h = hello_bytes.clone();
            let mut first = true;
            wire.state.lock().unwrap().handler = Some(Box::new(move |_req| {
                let mut r = HandlerResult::default();
                if first {
                    first = false;
                    r.replies.push(h.clone());
                }
                r
            }));
        } else {
            wire.push(hello_bytes.clone());
        }
        let mut fut = Box::pin(Session::verif_new(wire.transport()));
        let mut res = drive_pinned(fut.as_mut());
        if res.is_none() && case.server_waits_for_client {
            // both halves are pending: the client is blocked on its send; let it through
            wire.set_send_gate(false);
            res = drive_pinned(fut.as_mut());
        }
        // the client's own hello: which base versions did it put on the wire?
        let sent = wire.sent();
        let mut client_base: BTreeSet<&'static str> = BTreeSet::new();
        if let Some(first) = sent.first() {
            let s = String::from_utf8_lossy(first);
            if let Ok(root) = parse_document(s.strip_suffix(MARKER).unwrap_or(&s)) {
                if let Some(caps) = root.child("capabilities") {
                    for c in caps.children_named("capability") {
                        match c.text().trim() {
                            BASE10 => {
                                client_base.insert(BASE10);
                            }
                            BASE11 => {
                                client_base.insert(BASE11);
                            }
                            _ => {}
                        }
                    }
                }
            }
        }
        if sent.len() != 1 {
            obs.fail(
                "client-hello-count",
                format!("client sent {} messages during establishment", sent.len()),
            );
        }
        let exp = expected(case, &hello, &client_base);
        obs.class(match &exp {
            Ok((v, _)) => format!("expect:established:{v}"),
            Err(r) => format!("expect:refused:{r}"),
        });
        obs.class(if case.server_waits_for_client {
            "order:server-after-client"
        } else {
            "order:server-first"
        });
        // one-defect-away or interesting version mixes
        let defects = [
            case.malform != Malform::None,
            case.caps_elem != CapsElem::Once,
            !matches!(case.sid, Sid::Valid(_) | Sid::LeadingZeros(_) | Sid::Padded(..)),
            !(case.base10 || case.base11),
        ]
        .iter()
        .filter(|d| **d)
        .count();
        obs.nontrivial = defects == 1 || (defects == 0 && case.base11);
        match (res, exp) {
            (None, _) => obs.fail(
                "establishment-stuck",
                format!("session establishment neither succeeded nor failed for hello {hello:?}"),
            ),
            (Some(Ok(sess)), Err(reason)) => {
                let _ = sess;
                obs.fail(
                    format!("established-but-must-not:{reason}"),
                    format!("session established although: {reason}; hello {hello:?}"),
                );
            }
            (Some(Err(e)), Ok((v, sid))) => obs.fail(
                format!("refused-but-acceptable:{v}"),
                format!("acceptable hello (expect {v}, session-id {sid}) refused with {e:?}; hello {hello:?}"),
            ),
            (Some(Err(_)), Err(_)) => obs.class("result:refused"),
            (Some(Ok(sess)), Ok((v, sid))) => {
                obs.class("result:established");
                let ctx = sess.context();
                let got_v = format!("{:?}", ctx.protocol_version());
                if got_v != v {
                    obs.fail(
                        format!("wrong-version:{got_v}-instead-of-{v}"),
                        format!("negotiated {got_v}, highest common version is {v}; hello {hello:?}"),
                    );
                }
                if ctx.session_id().to_string() != sid.to_string() {
                    obs.fail(
                        "wrong-session-id",
                        format!("reported session-id {} but hello says {sid}", ctx.session_id()),
                    );
                }
                let got: BTreeSet<String> = ctx
                    .server_capabilities()
                    .iter()
                    .map(|c| c.uri().into_owned())
                    .collect();
                let want: BTreeSet<String> = uris.iter().cloned().collect();
                let want_escaped: BTreeSet<String> = uris
                    .iter()
                    .map(|u| crate::xmlstrict::escape_text(u))
                    .collect();
                if got != want && got == want_escaped {
                    obs.fail(
                        "capability-uri-reported-with-xml-escapes",
                        format!("capability URIs are reported with their XML escapes: {got:?} (hello says {want:?})"),
                    );
                } else if got != want {
                    obs.fail(
                        "wrong-capability-set",
                        format!("reported capabilities {got:?} differ from the hello's {want:?}"),
                    );
                }
            }
        }
        obs
    }
    fn assumptions(&self) -> Vec<String> {
        vec![
            "capability values are valid URIs; the url capability is written as ...url:1.0?scheme=a,b".into(),
            "a session-id with leading zeros is a valid xs:unsignedInt lexical form".into(),
        ]
    }
}

pub fn property() -> Property {
    Property {
        id: "C12",
        level: "exploration",
        parts: vec![Box::new(PropPart(HelloMatrix)), Box::new(PropPart(Framing))],
    }
}

// ------------------------------------------------------------------ framing on the real TLS transport

#[derive(Debug, Clone, Serialize, Deserialize)]
pub struct FramingCase {
    pub server_base10: bool,
    pub server_base11: bool,
    pub extra_caps: u8,
}

pub struct Framing;

impl Prop for Framing {
    type Case = FramingCase;
    fn name(&self) -> &'static str {
        "framing"
    }
    fn rule(&self) -> String {
        "a conforming fake server on the real TLS transport advertising :base:1.0 only, :base:1.1 \
         only or both (plus generated other capabilities); after the hello exchange it uses RFC \
         6242 chunked framing iff both peers advertised :base:1.1 (it reads the client's hello to \
         decide), else end-of-message framing. Oracle: whenever session establishment succeeds, the \
         first get-config completes with the payload the server sent; establishment must succeed \
         when a common base version exists. Non-trivial = the server advertises :base:1.1; \
         distinct by capability set"
            .into()
    }
    fn cases(&self, tier: Tier) -> u32 {
        tier.pick(240, 6_000)
    }
    fn max_threads(&self) -> usize {
        4
    }
    fn strategy(&self, _tier: Tier) -> BoxedStrategy<FramingCase> {
        (any::<bool>(), any::<bool>(), any::<u8>())
            .prop_map(|(a, b, extra_caps)| FramingCase {
                server_base10: a || !b,
                server_base11: b,
                extra_caps,
            })
            .boxed()
    }
    fn fixed_cases(&self) -> Vec<FramingCase> {
        vec![
            FramingCase { server_base10: true, server_base11: false, extra_caps: 0 },
            FramingCase { server_base10: true, server_base11: true, extra_caps: 0 },
            FramingCase { server_base10: false, server_base11: true, extra_caps: 0 },
        ]
    }
    fn check(&self, case: &FramingCase) -> Obs {
        use crate::script::{hello_bytes, Script, Step};
        use netconf::message::rpc::operation::{Builder as _, GetConfig, Opaque};
        let mut obs = Obs::default();
        obs.nontrivial = case.server_base11;
        let mut caps: Vec<&str> = Vec::new();
        if case.server_base10 {
            caps.push(BASE10);
        }
        if case.server_base11 {
            caps.push(BASE11);
        }
        for (i, c) in [CAP_CANDIDATE, CAP_XPATH, CAP_STARTUP, CAP_JUNOS].iter().enumerate() {
            if case.extra_caps & (1 << i) != 0 {
                caps.push(c);
            }
        }
        let payload = "<t xmlns=\"urn:verif\">framing</t>".to_string();
        let script = Script {
            steps: vec![
                Step::Write(hello_bytes(&caps, 31)),
                Step::AwaitMessages(1),
                Step::NegotiateFraming {
                    server_has_11: case.server_base11,
                },
                Step::AwaitMessages(2),
                Step::ReplyNegotiated {
                    payloads: vec![payload.clone()],
                },
                Step::HoldMs(2000),
            ],
        };
        obs.class(format!(
            "server:{}{}",
            if case.server_base10 { "1.0" } else { "" },
            if case.server_base11 { "+1.1" } else { "" }
        ));
        let run = |script: Script| -> Result<(String, bool), String> {
            let r = crate::core::with_watchdog(std::time::Duration::from_secs(40), move || {
                let rt = tokio::runtime::Builder::new_multi_thread()
                    .worker_threads(2)
                    .enable_all()
                    .build()
                    .map_err(|e| e.to_string())?;
                let out = rt.block_on(async move {
                    let listener = crate::net::bind_local().map_err(|e| e.to_string())?;
                    let port = listener.local_addr().map_err(|e| e.to_string())?.port();
                    let acceptor = crate::net::tls_acceptor("server.crt", "server.key");
                    let server = tokio::spawn(crate::net::tls_server(
                        listener,
                        acceptor,
                        script,
                        crate::net::PreClose::None,
                    ));
                    let dir = crate::net::pki_dir();
                    let ca = crate::net::read_certs(&dir.join("ca.crt")).remove(0);
                    let cert = crate::net::read_certs(&dir.join("client-rsa.crt")).remove(0);
                    let key = crate::net::read_key(&dir.join("client-rsa.pk8.key")).ok_or("key")?;
                    let wait = std::time::Duration::from_secs(6);
                    let est = tokio::time::timeout(
                        wait,
                        Session::tls(("127.0.0.1", port), "localhost", ca, cert, key),
                    )
                    .await;
                    let res = match est {
                        Err(_) => "establish:TIMEOUT".to_string(),
                        Ok(Err(e)) => format!("establish:Err({e:?})"),
                        Ok(Ok(mut sess)) => {
                            let r = tokio::time::timeout(wait, async {
                                match sess
                                    .rpc::<GetConfig<Opaque>, _>(|b| {
                                        b.source(crate::ops::Ds::Running.to_lib())?.finish()
                                    })
                                    .await
                                {
                                    Err(e) => format!("send:Err({e:?})"),
                                    Ok(f) => match f.await {
                                        Ok(v) => format!("reply:Ok({v})"),
                                        Err(e) => format!("reply:Err({e:?})"),
                                    },
                                }
                            })
                            .await;
                            r.unwrap_or_else(|_| "reply:TIMEOUT".to_string())
                        }
                    };
                    server.abort();
                    let chunked = false;
                    Ok::<_, String>((res, chunked))
                });
                rt.shutdown_timeout(std::time::Duration::from_millis(200));
                out
            });
            r.unwrap_or_else(|| Ok(("establish:NEVER-RETURNED".to_string(), false)))
        };
        let judge = |res: &str, obs: &mut Obs| {
            let want = format!("reply:Ok({payload})");
            let key = format!(
                "server-advertises-{}{}",
                if case.server_base10 { "1.0" } else { "" },
                if case.server_base11 { "+1.1" } else { "" }
            );
            if res.starts_with("establish:Err") {
                obs.class("result:not-established");
                if case.server_base10 {
                    obs.fail(
                        format!("refused-although-1.0-is-common:{key}"),
                        format!("establishment failed ({res}) although both peers support :base:1.0"),
                    );
                }
            } else if res == want {
                obs.class("result:usable");
            } else {
                obs.fail(
                    format!("established-but-unusable:{key}"),
                    format!("the session was established but the first get-config gave {res} against a conforming server (which uses chunked framing iff both hellos carry :base:1.1)"),
                );
            }
        };
        match run(script.clone()) {
            Err(e) => obs.fail("harness-sanity:setup", e),
            Ok((res, _)) => {
                judge(&res, &mut obs);
                if !obs.failures.is_empty() {
                    // wall clock involved: confirm once
                    let mut again = Obs::default();
                    if let Ok((r2, _)) = run(script) {
                        judge(&r2, &mut again);
                    }
                    if again.failures.is_empty() {
                        obs.failures.clear();
                        obs.class("not-reproduced(discarded)");
                    }
                }
            }
        }
        obs
    }
}
