//! C08 — a reply carrying an error is never reported as success.
//!
//! Engine F: a session over the in-memory transport, one request of every operation, answered
//! with a reply document generated from the reply grammar (any number / order / severity of
//! `<rpc-error>` combined with any positive indication at every position the grammar has).

use proptest::prelude::*;
use serde::{Deserialize, Serialize};

use crate::{
    core::{Obs, Prop, PropPart, Property, Tier},
    ops::{run_req, Outcome, ReplyKind, ReqSpec},
    replygen::{doc_errors, err_spec, reply_x, ErrSpec, Inner, Item},
    sess::{all_caps, establish_caps},
    xmlgen::{render_message, Style},
};

#[derive(Debug, Clone, Serialize, Deserialize)]
pub struct Case {
    /// index into `ReqSpec::canonical()`
    pub op: u8,
    pub items: Vec<Item>,
    pub compact: bool,
    /// a generated serialisation style (namespace prefix, whitespace, comments, quotes, XML
    /// declaration, `<ok></ok>` for `<ok/>`); `None` = the fixture style selected by `compact`
    #[serde(default)]
    pub style: Option<Style>,
}

fn shape(items: &[Item]) -> String {
    let e = |e: &ErrSpec| match (e.severity_error, e.abbreviated != 0) {
        (true, false) => "E",
        (false, false) => "W",
        (true, true) => "E-abbreviated",
        (false, true) => "W-abbreviated",
    };
    items
        .iter()
        .map(|i| match i {
            Item::Ok => "ok".to_string(),
            Item::Data(_) => "data".to_string(),
            Item::Err(x) => e(x).to_string(),
            Item::Results(inner) => format!(
                "results({})",
                inner
                    .iter()
                    .map(|i| match i {
                        Inner::Ok => "ok".to_string(),
                        Inner::Err(x) => e(x).to_string(),
                        Inner::Count(n) => format!("count{n}"),
                    })
                    .collect::<Vec<_>>()
                    .join(",")
            ),
        })
        .collect::<Vec<_>>()
        .join(",")
}

fn has_positive(kind: ReplyKind, items: &[Item]) -> bool {
    match kind {
        ReplyKind::Empty => items.iter().any(|i| matches!(i, Item::Ok)),
        ReplyKind::Data => items.iter().any(|i| matches!(i, Item::Data(_))),
        ReplyKind::Bare => true,
        ReplyKind::Load => items.iter().any(|i| match i {
            Item::Results(inner) => inner.iter().any(|x| matches!(x, Inner::Ok)),
            _ => false,
        }),
    }
}

fn only_positive(kind: ReplyKind, items: &[Item]) -> bool {
    match (kind, items) {
        (ReplyKind::Empty, [Item::Ok]) => true,
        (ReplyKind::Data, [Item::Data(_)]) => true,
        (ReplyKind::Bare, []) => true,
        (ReplyKind::Load, [Item::Results(inner)]) => matches!(inner.as_slice(), [Inner::Ok]),
        _ => false,
    }
}

pub struct C08;

fn inner_strategy() -> impl Strategy<Value = Vec<Inner>> {
    (
        prop::collection::vec(err_spec(), 0..3),
        prop::bool::weighted(0.6),
        prop::option::weighted(0.5, prop_oneof![Just(255u8), 0u8..4]),
    )
        .prop_flat_map(|(errs, ok, count)| {
            let n = errs.len() as u8;
            let mut v: Vec<Inner> = errs.into_iter().map(Inner::Err).collect();
            if ok {
                v.push(Inner::Ok);
            }
            if let Some(c) = count {
                // 255 = "matching count"
                v.push(Inner::Count(if c == 255 { n } else { c }));
            }
            Just(v).prop_shuffle()
        })
}

fn items_strategy(kind: ReplyKind) -> impl Strategy<Value = Vec<Item>> {
    let positive: BoxedStrategy<Option<Item>> = match kind {
        ReplyKind::Empty => prop::option::weighted(0.7, Just(Item::Ok)).boxed(),
        ReplyKind::Data => prop::option::weighted(
            0.7,
            prop_oneof![
                Just(Item::Data("<configuration><top/></configuration>".into())),
                Just(Item::Data(String::new())),
            ],
        )
        .boxed(),
        ReplyKind::Bare => Just(None).boxed(),
        ReplyKind::Load => prop::option::weighted(0.85, inner_strategy().prop_map(Item::Results))
            .boxed(),
    };
    let foreign = prop::option::weighted(
        0.08,
        prop_oneof![
            Just(Item::Ok),
            Just(Item::Data("<x/>".into())),
            inner_strategy().prop_map(Item::Results)
        ],
    );
    (prop::collection::vec(err_spec(), 0..4), positive, foreign).prop_flat_map(
        |(errs, positive, foreign)| {
            let mut v: Vec<Item> = errs.into_iter().map(Item::Err).collect();
            v.extend(positive);
            v.extend(foreign);
            Just(v).prop_shuffle()
        },
    )
}

impl Prop for C08 {
    type Case = Case;
    fn name(&self) -> &'static str {
        "reply-grammar"
    }
    fn rule(&self) -> String {
        "one request per case (every operation of the library, canonical parameters) answered by a \
         reply generated from the reply grammar: 0..4 rpc-errors (type/tag/severity/app-tag/path/\
         message/info generated) shuffled with the operation's positive indication (or a foreign \
         one); for load-configuration the results element holds its own shuffled errors / ok / \
         load-error-count. All child sequences of length <= 3 are enumerated first. Non-trivial = \
         the document contains an error-severity rpc-error together with a positive indication; \
         distinct by (operation, document)"
            .into()
    }
    fn cases(&self, tier: Tier) -> u32 {
        tier.pick(60_000, 3_000_000)
    }
    fn strategy(&self, _tier: Tier) -> BoxedStrategy<Case> {
        // pick the reply kind uniformly, then one of its operations
        let ops = ReqSpec::canonical();
        let by_kind = |k: ReplyKind| -> Vec<u8> {
            ops.iter()
                .enumerate()
                .filter(|(_, o)| o.reply_kind() == k)
                .map(|(i, _)| i as u8)
                .collect()
        };
        let kinds = [
            by_kind(ReplyKind::Empty),
            by_kind(ReplyKind::Data),
            by_kind(ReplyKind::Bare),
            by_kind(ReplyKind::Load),
        ];
        (0usize..4, any::<u16>())
            .prop_map(move |(k, i)| kinds[k][crate::core::pick_idx(i, kinds[k].len())])
            .prop_flat_map(|op| {
                let kind = ReqSpec::canonical()[op as usize].reply_kind();
                (
                    Just(op),
                    items_strategy(kind),
                    any::<bool>(),
                    prop::option::weighted(0.5, crate::xmlgen::style_strategy()),
                )
            })
            .prop_map(|(op, items, compact, style)| Case {
                op,
                items,
                compact,
                // the empty-container spellings are C13's subject (known findings there), and
                // whitespace around token text would change the error fields themselves
                style: style.map(|s| Style {
                    collapse_containers: false,
                    token_ws: crate::xmlgen::Ws::None,
                    scope: None,
                    ..s
                }),
            })
            .boxed()
    }
    fn fixed_cases(&self) -> Vec<Case> {
        // bounded-exhaustive: all child sequences of length <= 3
        let e = Item::Err(ErrSpec::simple(true));
        let w = Item::Err(ErrSpec::simple(false));
        // an rpc-error in the abbreviated form Junos uses for CLI-layer messages
        // (severity and message only)
        let abbreviated = ErrSpec { abbreviated: 3, info: Vec::new(), ..ErrSpec::simple(true) };
        let top = [Item::Ok, Item::Data("<x/>".into()), e.clone(), w.clone(), Item::Err(abbreviated.clone())];
        let mut seqs: Vec<Vec<Item>> = vec![vec![]];
        let mut frontier: Vec<Vec<Item>> = vec![vec![]];
        for _ in 0..3 {
            let mut next = Vec::new();
            for s in &frontier {
                for t in &top {
                    let mut s2 = s.clone();
                    s2.push(t.clone());
                    next.push(s2);
                }
            }
            seqs.extend(next.iter().cloned());
            frontier = next;
        }
        let mut out = Vec::new();
        let ops = ReqSpec::canonical();
        for (i, _) in ops.iter().enumerate() {
            for s in &seqs {
                out.push(Case {
                    op: i as u8,
                    items: s.clone(),
                    compact: false,
                    style: None,
                });
                // the same sequences with every empty leaf written as start + end tag
                if s.iter().any(|i| matches!(i, Item::Ok)) && s.iter().any(|i| matches!(i, Item::Err(_))) {
                    out.push(Case {
                        op: i as u8,
                        items: s.clone(),
                        compact: false,
                        style: Some(Style { expand_empty: true, ..Style::canonical() }),
                    });
                }
            }
        }
        // load-configuration-results: all inner sequences of length <= 3, alone and with an
        // outer error before / after
        let inner_alpha = [
            Inner::Ok,
            Inner::Err(ErrSpec::simple(true)),
            Inner::Err(ErrSpec::simple(false)),
            Inner::Err(abbreviated.clone()),
            Inner::Count(0),
            Inner::Count(1),
            Inner::Count(2),
        ];
        let mut iseqs: Vec<Vec<Inner>> = vec![vec![]];
        let mut frontier: Vec<Vec<Inner>> = vec![vec![]];
        for _ in 0..3 {
            let mut next = Vec::new();
            for s in &frontier {
                for t in &inner_alpha {
                    let mut s2 = s.clone();
                    s2.push(t.clone());
                    next.push(s2);
                }
            }
            iseqs.extend(next.iter().cloned());
            frontier = next;
        }
        let load = ops
            .iter()
            .position(|o| o.reply_kind() == ReplyKind::Load)
            .unwrap() as u8;
        for s in &iseqs {
            out.push(Case {
                op: load,
                items: vec![Item::Results(s.clone())],
                compact: true,
                style: None,
            });
            if s.iter().any(|i| matches!(i, Inner::Ok)) && s.iter().any(|i| matches!(i, Inner::Err(_))) {
                out.push(Case {
                    op: load,
                    items: vec![Item::Results(s.clone())],
                    compact: true,
                    style: Some(Style { expand_empty: true, ..Style::compact() }),
                });
            }
            out.push(Case {
                op: load,
                items: vec![e.clone(), Item::Results(s.clone())],
                compact: false,
                style: None,
            });
            out.push(Case {
                op: load,
                items: vec![Item::Results(s.clone()), e.clone()],
                compact: false,
                style: None,
            });
        }
        out
    }
    fn check(&self, case: &Case) -> Obs {
        let mut obs = Obs::default();
        let ops = ReqSpec::canonical();
        let spec = &ops[case.op as usize % ops.len()];
        let kind = spec.reply_kind();
        let (sess, wire) = establish_caps(&all_caps());
        let fixture_style = case.style.is_none();
        let style = match &case.style {
            Some(s) => {
                obs.class("style:generated");
                if s.expand_empty {
                    obs.class("style:empty-leaf-as-start-end");
                }
                if s.base_prefix.is_some() {
                    obs.class("style:prefixed");
                }
                s.clone()
            }
            None if case.compact => Style::compact(),
            None => Style::canonical(),
        };
        let items = case.items.clone();
        let (_s, _req, out) = run_req(sess, &wire, spec, |id| {
            vec![render_message(&reply_x(id, &items), &style).into_bytes()]
        });
        let errors = doc_errors(&case.items);
        let has_err = errors.iter().any(|e| e.severity_error);
        if errors.iter().any(|e| e.abbreviated != 0) {
            obs.class("doc:abbreviated-rpc-error");
        }
        let positive = has_positive(kind, &case.items);
        obs.class(format!("kind:{kind:?}"));
        obs.class(format!(
            "doc:{}{}",
            if has_err {
                "error"
            } else if errors.is_empty() {
                "clean"
            } else {
                "warnings"
            },
            if positive { "+positive" } else { "" }
        ));
        obs.nontrivial = has_err && positive && kind != ReplyKind::Bare
            || (kind == ReplyKind::Bare && has_err);
        let sh = shape(&case.items);
        match &out {
            Outcome::Ok(_) => {
                obs.class("result:ok");
                if has_err {
                    obs.fail(
                        format!("error-reported-as-success:{kind:?}:{sh}"),
                        format!(
                            "{} reply [{sh}] contains an rpc-error of severity error but the result is Ok",
                            spec.op_name()
                        ),
                    );
                }
                if !positive {
                    obs.fail(
                        format!("success-without-positive-indication:{kind:?}:{sh}"),
                        format!(
                            "{} reply [{sh}] has no positive indication but the result is Ok",
                            spec.op_name()
                        ),
                    );
                }
            }
            Outcome::RpcErrors(list) => {
                obs.class("result:rpc-errors");
                let expected: Vec<String> = errors.iter().map(|e| e.expected_debug()).collect();
                // (in a generated style only the two "=> not Ok" oracles apply: equivalence of
                // what is read under re-serialisation is C13's subject)
                // (an abbreviated rpc-error cannot be represented in the library's Error type:
                // only "not Ok" is asserted for documents that hold one)
                if fixture_style && !errors.iter().any(|e| e.abbreviated != 0) && *list != expected {
                    obs.fail(
                        format!("reported-errors-differ:{kind:?}:{sh}"),
                        format!(
                            "{} reply [{sh}]: reported errors {list:?} differ from the document's {expected:?}",
                            spec.op_name()
                        ),
                    );
                }
            }
            Outcome::OtherErr(_) => obs.class("result:other-error"),
            Outcome::Stuck => obs.class("result:stuck"),
            Outcome::Refused(e) => obs.fail(
                "harness-sanity:canonical-request-refused",
                format!("{} refused: {e}", spec.op_name()),
            ),
            Outcome::SendStuck => obs.fail("harness-sanity:send-stuck", "send did not complete"),
        }
        if fixture_style && only_positive(kind, &case.items) && !out.is_ok() {
            obs.fail(
                format!("harness-sanity:plain-positive-reply-not-ok:{kind:?}"),
                format!("{} plain positive reply gave {out:?}", spec.op_name()),
            );
        }
        obs
    }
    fn assumptions(&self) -> Vec<String> {
        vec![
            "reply documents are well-formed XML in the style of the repository's fixtures; text values contain no XML metacharacters (escaping is C13's subject)".into(),
            "the expected error list is compared through the Debug rendering of the library's public rpc::Error values".into(),
        ]
    }
}

pub fn property() -> Property {
    Property {
        id: "C08",
        level: "exploration",
        parts: vec![Box::new(PropPart(C08))],
    }
}
