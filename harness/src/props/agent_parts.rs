//! Parts of C10, C13 and C14 that concern the agent's own readers and payload writer
//! (junos-agent/src/policies/{fetch,load}.rs), driven through the agent hooks.

use std::sync::{Arc, Mutex};

use proptest::prelude::*;
use serde::{Deserialize, Serialize};

use crate::{
    core::{catch, Obs, Prop, Tier},
    fake_junos::{self, FakeJunos},
    junos_model::{Config, PRange, Policy, Term},
    mem::drive,
    props::{
        c01::{self, History, V4_POOL, V6_POOL},
        c13::metamorphic,
        c14::{apply, Mutation},
    },
    running::{running_x, stmt_strategy, Stmt, NAME_POOL},
    xmlgen::{render_message, style_strategy, Ns, Style, X},
};

// ------------------------------------------------------------------ C13: configuration readers

#[derive(Debug, Clone, Serialize, Deserialize)]
pub struct InstalledSpec {
    pub policies: Vec<(u8, u16, u16, bool, u8)>,
}

impl InstalledSpec {
    pub fn to_config(&self) -> Config {
        let mut cfg = Config::default();
        for (n, v4, v6, reject, quirk) in &self.policies {
            let name = NAME_POOL[*n as usize % NAME_POOL.len()].to_string();
            if cfg.get(&name).is_some() {
                continue;
            }
            let mut terms = Vec::new();
            for (fam, pool, mask) in [("inet", V4_POOL, *v4), ("inet6", V6_POOL, *v6)] {
                let filters: std::collections::BTreeSet<_> = pool
                    .iter()
                    .enumerate()
                    .filter(|(i, _)| mask & (1 << i) != 0)
                    .filter_map(|(_, r)| PRange::from_plain(r))
                    .map(|r| r.to_entry())
                    .collect();
                if filters.is_empty() {
                    continue;
                }
                terms.push(Term {
                    name: fam.to_string(),
                    family: Some(fam.to_string()),
                    filters,
                    action: match quirk {
                        1 => None,
                        2 => Some("reject".into()),
                        _ => Some("accept".into()),
                    },
                });
            }
            cfg.policies.push(Policy {
                name,
                comment: None,
                terms,
                default_action: reject.then(|| "reject".to_string()),
            });
        }
        cfg
    }
}

pub fn installed_strategy() -> impl Strategy<Value = InstalledSpec> {
    prop::collection::vec(
        (
            0u8..NAME_POOL.len() as u8,
            prop_oneof![Just(0u16), any::<u16>().prop_map(|m| m & 0xfff)],
            prop_oneof![Just(0u16), any::<u16>().prop_map(|m| m & 0xfff)],
            prop::bool::weighted(0.9),
            prop_oneof![10 => Just(0u8), 1 => Just(1u8), 1 => Just(2u8)],
        ),
        0..4,
    )
    .prop_map(|policies| InstalledSpec { policies })
}

fn candidates_outcome(stmts: &[Stmt], style: &Style) -> String {
    let fake = Arc::new(Mutex::new(FakeJunos::new("bgpfu")));
    {
        let mut f = fake.lock().unwrap();
        f.running = stmts.to_vec();
        f.style = Some(style.clone());
    }
    match catch(|| {
        drive(bgpfu_junos_agent::verif::fetch_candidates(
            fake_junos::factory(&fake),
            "bgpfu",
        ))
    }) {
        Ok(Some(Ok(list))) => format!("ok:{list:?}"),
        Ok(Some(Err(_))) => "error".into(),
        Ok(None) => "stuck".into(),
        Err((loc, _)) => format!("panic:{loc}"),
    }
}

fn installed_outcome(cfg: &Config, style: &Style) -> String {
    let fake = Arc::new(Mutex::new(FakeJunos::new("bgpfu")));
    {
        let mut f = fake.lock().unwrap();
        f.ephemeral = cfg.clone();
        f.style = Some(style.clone());
    }
    match catch(|| {
        drive(bgpfu_junos_agent::verif::fetch_installed(
            fake_junos::factory(&fake),
            "bgpfu",
        ))
    }) {
        Ok(Some(Ok(list))) => format!("ok:{list:?}"),
        Ok(Some(Err(_))) => "error".into(),
        Ok(None) => "stuck".into(),
        Err((loc, _)) => format!("panic:{loc}"),
    }
}

#[derive(Debug, Clone, Serialize, Deserialize)]
pub enum ConfigTree {
    Candidates(Vec<Stmt>),
    Installed(InstalledSpec),
}

#[derive(Debug, Clone, Serialize, Deserialize)]
pub struct ConfigCase {
    pub tree: ConfigTree,
    pub a: Style,
    pub b: Style,
}

pub struct C13Config;

impl Prop for C13Config {
    type Case = ConfigCase;
    fn name(&self) -> &'static str {
        "junos-configuration"
    }
    fn rule(&self) -> String {
        "the reply to the agent's two get-config requests (running configuration with generated \
         policy statements and jcmd attributes; ephemeral configuration with generated installed \
         policies incl. empty families, missing actions, missing default reject) rendered in two \
         generated styles and read by the agent's real readers through a real session. Non-trivial \
         = the styles differ and the canonical rendering is read successfully; distinct by (tree, \
         style pair)"
            .into()
    }
    fn cases(&self, tier: Tier) -> u32 {
        tier.pick(12_000, 600_000)
    }
    fn strategy(&self, _tier: Tier) -> BoxedStrategy<ConfigCase> {
        (
            prop_oneof![
                prop::collection::vec(stmt_strategy(), 0..5).prop_map(ConfigTree::Candidates),
                installed_strategy().prop_map(ConfigTree::Installed),
            ],
            style_strategy(),
            style_strategy(),
        )
            .prop_map(|(tree, a, b)| ConfigCase { tree, a, b })
            .boxed()
    }
    fn check(&self, case: &ConfigCase) -> Obs {
        let mut obs = Obs::default();
        let wrap = |cfg: X| {
            X::container(Ns::Base, "rpc-reply")
                .attr("message-id", "2")
                .kid(X::container(Ns::Base, "data").kid(cfg))
        };
        match &case.tree {
            ConfigTree::Candidates(stmts) => {
                let tree = wrap(running_x(stmts));
                let canon = candidates_outcome(stmts, &Style::canonical());
                obs.class("reader:junos-candidates");
                obs.class(if canon.starts_with("ok:") {
                    "canonical:read"
                } else {
                    "canonical:rejected"
                });
                obs.nontrivial = canon.starts_with("ok:") && !case.a.diff(&case.b).is_empty();
                metamorphic(
                    "junos-candidates",
                    &tree,
                    &case.a,
                    &case.b,
                    &|s| candidates_outcome(stmts, s),
                    &mut obs,
                );
            }
            ConfigTree::Installed(spec) => {
                let cfg = spec.to_config();
                let tree = wrap(cfg.render());
                let canon = installed_outcome(&cfg, &Style::canonical());
                obs.class("reader:junos-installed");
                obs.class(if canon.starts_with("ok:") {
                    "canonical:read"
                } else {
                    "canonical:rejected"
                });
                obs.nontrivial = canon.starts_with("ok:") && !case.a.diff(&case.b).is_empty();
                metamorphic(
                    "junos-installed",
                    &tree,
                    &case.a,
                    &case.b,
                    &|s| installed_outcome(&cfg, s),
                    &mut obs,
                );
            }
        }
        for d in case.a.diff(&case.b) {
            obs.class(format!("rewrite:{d}"));
        }
        obs
    }
    fn assumptions(&self) -> Vec<String> {
        vec!["the other replies of the session (hello, open-configuration) are in the canonical style; only the get-config reply under test is restyled".into()]
    }
}

// ------------------------------------------------------------------ C14: configuration readers

#[derive(Debug, Clone, Serialize, Deserialize)]
pub struct GarbageCase {
    pub tree: ConfigTree,
    pub style: Style,
    pub mutations: Vec<Mutation>,
}

pub struct C14Agent;

impl Prop for C14Agent {
    type Case = GarbageCase;
    fn case_time_limit_s(&self) -> u64 {
        60
    }
    fn hang_is_violation(&self) -> bool {
        // "in bounded time" is the property: a call that never comes back is the violation
        true
    }
    fn name(&self) -> &'static str {
        "agent-readers"
    }
    fn rule(&self) -> String {
        "a valid reply to one of the agent's two get-config requests (generated as for C13) damaged \
         by 0..4 mutations (see part `mutations`) and served by the fake Junos inside an otherwise \
         normal session; the agent's real readers must return a value or an error. Non-trivial = \
         at least one mutation and the damaged bytes are still UTF-8; distinct by input"
            .into()
    }
    fn cases(&self, tier: Tier) -> u32 {
        tier.pick(30_000, 1_500_000)
    }
    fn strategy(&self, _tier: Tier) -> BoxedStrategy<GarbageCase> {
        (
            prop_oneof![
                prop::collection::vec(stmt_strategy(), 0..5).prop_map(ConfigTree::Candidates),
                installed_strategy().prop_map(ConfigTree::Installed),
            ],
            style_strategy(),
            prop::collection::vec(crate::props::c14::mutation(), 0..4),
        )
            .prop_map(|(tree, style, mutations)| GarbageCase {
                tree,
                style,
                mutations,
            })
            .boxed()
    }
    fn check(&self, case: &GarbageCase) -> Obs {
        let mut obs = Obs::default();
        let fake = Arc::new(Mutex::new(FakeJunos::new("bgpfu")));
        let wrap = |cfg: X| {
            X::container(Ns::Base, "rpc-reply")
                .attr("message-id", "2")
                .kid(X::container(Ns::Base, "data").kid(cfg))
        };
        let (mut bytes, candidates) = match &case.tree {
            ConfigTree::Candidates(stmts) => (
                render_message(&wrap(running_x(stmts)), &case.style).into_bytes(),
                true,
            ),
            ConfigTree::Installed(spec) => (
                render_message(&wrap(spec.to_config().render()), &case.style).into_bytes(),
                false,
            ),
        };
        for m in &case.mutations {
            bytes = apply(bytes, m);
            let n = format!("{m:?}");
            obs.class(format!("mutation:{}", n.split('(').next().unwrap_or(&n)));
        }
        obs.nontrivial = !case.mutations.is_empty() && std::str::from_utf8(&bytes).is_ok();
        {
            let mut f = fake.lock().unwrap();
            if candidates {
                f.running_override = Some(bytes.clone());
            } else {
                f.ephemeral_override = Some(bytes.clone());
            }
        }
        obs.class(if candidates {
            "target:candidate-reader"
        } else {
            "target:installed-reader"
        });
        let r = if candidates {
            catch(|| {
                drive(bgpfu_junos_agent::verif::fetch_candidates(
                    fake_junos::factory(&fake),
                    "bgpfu",
                ))
                .map(|r| r.map(|_| ()))
            })
        } else {
            catch(|| {
                drive(bgpfu_junos_agent::verif::fetch_installed(
                    fake_junos::factory(&fake),
                    "bgpfu",
                ))
                .map(|r| r.map(|_| ()))
            })
        };
        match r {
            Ok(Some(_)) => {}
            Ok(None) => obs.fail(
                "never-resolves",
                format!("reading never completes; input {:?}", String::from_utf8_lossy(&bytes)),
            ),
            Err((loc, msg)) => obs.fail(
                format!("panic:{loc}"),
                format!("panic at {loc}: {msg}; input {:?}", String::from_utf8_lossy(&bytes)),
            ),
        }
        obs
    }
}

/// the damaged get-config reply of a case, and whether it targets the candidate reader
pub fn render_garbage(case: &GarbageCase) -> (Vec<u8>, bool) {
    let wrap = |cfg: X| {
        X::container(Ns::Base, "rpc-reply")
            .attr("message-id", "2")
            .kid(X::container(Ns::Base, "data").kid(cfg))
    };
    let (mut bytes, candidates) = match &case.tree {
        ConfigTree::Candidates(stmts) => (
            render_message(&wrap(running_x(stmts)), &case.style).into_bytes(),
            true,
        ),
        ConfigTree::Installed(spec) => (
            render_message(&wrap(spec.to_config().render()), &case.style).into_bytes(),
            false,
        ),
    };
    for m in &case.mutations {
        bytes = apply(bytes, m);
    }
    (bytes, candidates)
}

/// Entry function shared with the fuzz target: serve `bytes` as the reply to the agent's
/// get-config for the running (candidates) or the ephemeral (installed) configuration.
pub fn feed_agent_reader_raw(candidates: bool, bytes: &[u8]) -> Result<(), String> {
    let fake = Arc::new(Mutex::new(FakeJunos::new("bgpfu")));
    {
        let mut f = fake.lock().unwrap();
        if candidates {
            f.running_override = Some(bytes.to_vec());
        } else {
            f.ephemeral_override = Some(bytes.to_vec());
        }
    }
    let done = if candidates {
        drive(bgpfu_junos_agent::verif::fetch_candidates(
            fake_junos::factory(&fake),
            "bgpfu",
        ))
        .map(|_| ())
    } else {
        drive(bgpfu_junos_agent::verif::fetch_installed(
            fake_junos::factory(&fake),
            "bgpfu",
        ))
        .map(|_| ())
    };
    done.ok_or_else(|| "the reader never returns".to_string())
}

// ------------------------------------------------------------------ C10: agent payloads

pub struct C10Agent;

impl Prop for C10Agent {
    type Case = History;
    fn name(&self) -> &'static str {
        "agent-payloads"
    }
    fn rule(&self) -> String {
        "the histories of C01 (policy names with XML metacharacters, quotes, the delimiter, \
         non-ASCII); every message the agent sends is parsed by the fake Junos with the strict \
         parser: one well-formed document + one delimiter; the <name> of every load-configuration \
         payload must be (after XML unescaping by the parser) the name of a statement of the \
         running configuration or of an installed policy, and the junos:comment must end with the \
         policy's expression. Non-trivial = a payload for a name containing a metacharacter; \
         distinct by history"
            .into()
    }
    fn cases(&self, tier: Tier) -> u32 {
        tier.pick(4_000, 300_000)
    }
    fn strategy(&self, tier: Tier) -> BoxedStrategy<History> {
        c01::history_strategy(tier.pick(4, 6))
    }
    fn check(&self, h: &History) -> Obs {
        let mut obs = Obs::default();
        c01::check_payloads(h, &mut obs);
        obs
    }
}
