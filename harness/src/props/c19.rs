//! C19 — the daemon retries with bounded back-off and stays responsive to signals.
//!
//! Engine H: the agent's real `Loop::start` (through the `start_loop` hook) on a current-thread
//! tokio runtime with *paused* (virtual) time; the body of each run is a scripted outcome
//! (duration, ok / fail) installed through the `set_run_script` hook; real Unix signals are raised
//! with `libc::raise` at generated virtual instants inside the waiting intervals. The observable
//! is the time line of run starts and the loop's exit; the oracle is a reference timing model.

use std::{
    num::NonZeroU64,
    sync::{Arc, Mutex},
    time::Duration,
};

use proptest::prelude::*;
use serde::{Deserialize, Serialize};

use crate::{
    core::{Obs, Prop, PropPart, Property, Tier},
    mem::MemFactory,
};

#[derive(Debug, Clone, Serialize, Deserialize)]
pub struct RunSpec {
    pub ok: bool,
    /// (failed runs) the run fails by panicking instead of returning an error
    #[serde(default)]
    pub panics: bool,
    /// virtual seconds the run takes
    pub duration: u16,
    /// SIGHUPs during the waiting interval that follows this run, as fractions (0..65535) of the
    /// expected delay; each one starts a run immediately, which consumes the next RunSpec
    pub sighup_at: Option<u16>,
}

#[derive(Debug, Clone, Serialize, Deserialize)]
pub struct Case {
    pub period: u32,
    pub runs: Vec<RunSpec>,
    /// how the history ends: SIGTERM (false) or SIGINT (true), raised inside the last waiting
    /// interval at this fraction of the expected delay
    pub end_with_sigint: bool,
    pub end_at: u16,
}

const MIN_BACKOFF: u64 = 60;

/// Reference timing model: delay after a run, given the outcome history.
struct Model {
    period: u64,
    consecutive_failures: u32,
    last_delay: u64,
}

impl Model {
    fn cap(&self) -> u64 {
        self.period.max(MIN_BACKOFF)
    }
    /// admissible (min, max) delay after this outcome, in seconds, given the previous delay of the
    /// same failure streak; returns also whether the delay must be strictly larger than before
    fn after(&mut self, ok: bool) -> Expect {
        if ok {
            self.consecutive_failures = 0;
            self.last_delay = 0;
            Expect::Exactly(self.period)
        } else {
            self.consecutive_failures += 1;
            if self.consecutive_failures == 1 {
                self.last_delay = MIN_BACKOFF;
                Expect::Exactly(MIN_BACKOFF)
            } else {
                Expect::Backoff {
                    previous: self.last_delay,
                    cap: self.cap(),
                }
            }
        }
    }
}

#[derive(Debug)]
enum Expect {
    Exactly(u64),
    Backoff { previous: u64, cap: u64 },
}

#[derive(Debug, Default)]
struct Recorded {
    /// (start, end) of each run in virtual milliseconds since the loop started
    runs: Vec<(u64, u64)>,
}

fn run_loop(case: &Case) -> Result<(Vec<(u64, u64)>, Option<Result<(), String>>, u64, Vec<(String, u64)>), String> {
    let rt = tokio::runtime::Builder::new_current_thread()
        .enable_all()
        .start_paused(true)
        .build()
        .map_err(|e| format!("runtime: {e}"))?;
    let recorded = Arc::new(Mutex::new(Recorded::default()));
    let specs = Arc::new(case.runs.clone());
    let (done_tx, mut done_rx) = tokio::sync::mpsc::unbounded_channel::<(usize, u64)>();
    let period = case.period.max(1) as u64;
    let case = case.clone();
    let out = rt.block_on(async move {
        let t0 = tokio::time::Instant::now();
        let next = Arc::new(Mutex::new(0usize));
        {
            let recorded = recorded.clone();
            let specs = specs.clone();
            let next = next.clone();
            let done_tx = done_tx.clone();
            bgpfu_junos_agent::verif::set_run_script(Some(Arc::new(move || {
                let recorded = recorded.clone();
                let specs = specs.clone();
                let next = next.clone();
                let done_tx = done_tx.clone();
                Box::pin(async move {
                    let i = {
                        let mut n = next.lock().unwrap();
                        let i = *n;
                        *n += 1;
                        i
                    };
                    let start = t0.elapsed().as_millis() as u64;
                    let spec = specs.get(i).cloned().unwrap_or(RunSpec {
                        ok: true,
                        panics: false,
                        duration: 0,
                        sighup_at: None,
                    });
                    tokio::time::sleep(Duration::from_secs(spec.duration as u64)).await;
                    let end = t0.elapsed().as_millis() as u64;
                    recorded.lock().unwrap().runs.push((start, end));
                    let _ = done_tx.send((i, end));
                    if spec.ok {
                        Ok(())
                    } else if spec.panics {
                        // a run that dies (the real job spawns tasks and unwraps their results)
                        std::panic::resume_unwind(Box::new("scripted panic of the run"))
                    } else {
                        Err(anyhow::anyhow!("scripted failure"))
                    }
                })
            })));
        }
        let factory = MemFactory::new(|| Err(anyhow::anyhow!("not used")));
        let freq = NonZeroU64::new(period).expect("period > 0");
        let loop_task = tokio::spawn(async move {
            bgpfu_junos_agent::verif::start_loop(factory, "127.0.0.1", 1, "bgpfu", freq).await
        });
        // signal injector: follows the reference model to place signals inside waiting intervals
        let mut model = Model {
            period,
            consecutive_failures: 0,
            last_delay: 0,
        };
        let mut signals: Vec<(String, u64)> = Vec::new();
        let mut exit: Option<Result<(), String>> = None;
        let n = case.runs.len();
        let mut loop_task = loop_task;
        loop {
            let (i, end) = tokio::select! {
                r = done_rx.recv() => match r { Some(x) => x, None => break },
                r = &mut loop_task => {
                    exit = Some(match r { Ok(Ok(())) => Ok(()), Ok(Err(e)) => Err(format!("{e:#}")), Err(e) => Err(format!("join: {e}")) });
                    break;
                }
            };
            let spec = case.runs.get(i).cloned();
            let ok = spec.as_ref().map_or(true, |s| s.ok);
            // expected delay per the model (for a back-off step use the smallest admissible one
            // to stay inside the waiting interval: strictly more than the previous delay is not
            // known, so place signals within the first MIN(previous, ...) seconds)
            let delay_s = match model.after(ok) {
                Expect::Exactly(d) => d,
                Expect::Backoff { previous, cap } => {
                    // whatever the implementation chose, it is at least 1 s; the signal (if any)
                    // is placed inside the first second
                    let _ = (previous, cap);
                    1
                }
            };
            let last = i + 1 >= n;
            if last {
                // end the history inside the waiting interval
                let off_ms = 1 + ((case.end_at as u64 * (delay_s * 1000 - 2).max(1)) >> 16);
                tokio::time::sleep(Duration::from_millis(off_ms)).await;
                let (name, sig) = if case.end_with_sigint {
                    ("SIGINT", libc::SIGINT)
                } else {
                    ("SIGTERM", libc::SIGTERM)
                };
                signals.push((name.to_string(), end + off_ms));
                // SAFETY: raising a signal for which tokio has installed a handler
                unsafe { libc::raise(sig) };
                // the loop must now exit
                let r = tokio::time::timeout(Duration::from_secs(3 * 86_400), &mut loop_task).await;
                exit = Some(match r {
                    Err(_) => Err("loop did not exit after the signal".into()),
                    Ok(Ok(Ok(()))) => Ok(()),
                    Ok(Ok(Err(e))) => Err(format!("{e:#}")),
                    Ok(Err(e)) => Err(format!("join: {e}")),
                });
                break;
            } else if let Some(f) = spec.and_then(|s| s.sighup_at) {
                let off_ms = 1 + ((f as u64 * (delay_s * 1000 - 2).max(1)) >> 16);
                tokio::time::sleep(Duration::from_millis(off_ms)).await;
                signals.push(("SIGHUP".to_string(), end + off_ms));
                // SAFETY: as above
                unsafe { libc::raise(libc::SIGHUP) };
                // a SIGHUP-triggered run does not change the failure streak bookkeeping of the
                // model beyond what its own outcome does
            }
        }
        loop_task.abort();
        bgpfu_junos_agent::verif::set_run_script(None);
        let runs = recorded.lock().unwrap().runs.clone();
        let total = t0.elapsed().as_millis() as u64;
        (runs, exit, total, signals)
    });
    drop(rt);
    Ok(out)
}

pub struct C19;

fn judge(case: &Case, obs: &mut Obs) {
    let (runs, exit, _total, signals) = match run_loop(case) {
        Ok(x) => x,
        Err(e) => {
            obs.fail("harness-sanity:runtime", e);
            return;
        }
    };
    let period = case.period.max(1) as u64;
    obs.class(if period < MIN_BACKOFF {
        "period<60"
    } else if period == MIN_BACKOFF {
        "period=60"
    } else {
        "period>60"
    });
    let ctx = format!(
        "period {period}s, scripted runs {:?}, observed (start,end) ms {:?}, signals {:?}, exit {:?}",
        case.runs, runs, signals, exit
    );
    if runs.len() != case.runs.len() {
        obs.fail(
            "wrong-number-of-runs",
            format!("{} runs observed, {} scripted; {ctx}", runs.len(), case.runs.len()),
        );
        return;
    }
    if runs.first().map(|r| r.0) != Some(0) {
        obs.fail("first-run-not-immediate", ctx.clone());
    }
    let mut model = Model {
        period,
        consecutive_failures: 0,
        last_delay: 0,
    };
    let mut streak = 0;
    for i in 0..runs.len() {
        let ok = case.runs[i].ok;
        let expect = model.after(ok);
        if ok {
            streak = 0;
        } else {
            streak += 1;
        }
        if i + 1 >= runs.len() {
            break;
        }
        let gap_ms = runs[i + 1].0.saturating_sub(runs[i].1);
        // a SIGHUP inside this interval?
        let hup = signals
            .iter()
            .find(|(n, t)| n == "SIGHUP" && *t > runs[i].1 && *t <= runs[i + 1].0 + 1);
        if gap_ms == 0 {
            obs.fail("runs-follow-each-other-without-delay", format!("run {} starts when run {i} ends; {ctx}", i + 1));
        }
        if let Some((_, t)) = hup {
            obs.class("sighup-while-waiting");
            if runs[i + 1].0.abs_diff(*t) > 2 {
                obs.fail(
                    "sighup-does-not-trigger-an-immediate-run",
                    format!("SIGHUP at {t} ms, next run starts at {} ms; {ctx}", runs[i + 1].0),
                );
            }
            // the delay bookkeeping of the streak continues from what the implementation chose;
            // nothing to record for monotonicity
            continue;
        }
        let gap_s = gap_ms as f64 / 1000.0;
        match expect {
            Expect::Exactly(d) => {
                if (gap_ms as i64 - d as i64 * 1000).abs() > 2 {
                    obs.fail(
                        if ok {
                            "wrong-delay-after-success".to_string()
                        } else {
                            "first-retry-not-after-one-minute".to_string()
                        },
                        format!("after run {i} ({}) the next run came {gap_s}s later, expected {d}s; {ctx}", if ok { "ok" } else { "failed" }),
                    );
                }
                model.last_delay = if ok { 0 } else { d };
            }
            Expect::Backoff { previous, cap } => {
                obs.class(format!("retry-{streak}"));
                if gap_ms > cap * 1000 + 2 {
                    obs.fail(
                        "retry-delay-exceeds-the-cap",
                        format!("retry {streak}: delay {gap_s}s exceeds max(60s, period)={cap}s; {ctx}"),
                    );
                }
                if gap_ms + 2 < previous * 1000 {
                    obs.fail(
                        if period < MIN_BACKOFF {
                            "retry-delay-shrinks:period<60"
                        } else {
                            "retry-delay-shrinks"
                        },
                        format!("retry {streak}: delay {gap_s}s is shorter than the previous delay {previous}s; {ctx}"),
                    );
                } else if previous < cap && gap_ms <= previous * 1000 + 2 {
                    obs.fail(
                        "retry-delay-does-not-grow",
                        format!("retry {streak}: delay {gap_s}s did not grow beyond {previous}s although the cap {cap}s is not reached; {ctx}"),
                    );
                }
                model.last_delay = (gap_ms + 500) / 1000;
            }
        }
    }
    match exit {
        Some(Ok(())) => {}
        Some(Err(e)) => obs.fail(
            "loop-does-not-exit-cleanly-on-signal",
            format!("{e}; {ctx}"),
        ),
        None => obs.fail("loop-still-running", ctx.clone()),
    }
    let fails_then_ok = case
        .runs
        .windows(3)
        .any(|w| !w[0].ok && !w[1].ok && w[2].ok);
    obs.nontrivial = fails_then_ok || signals.iter().any(|(n, _)| n == "SIGHUP");
}

impl Prop for C19 {
    type Case = Case;
    fn name(&self) -> &'static str {
        "timelines"
    }
    fn rule(&self) -> String {
        "period in 1..86400 s (biased around 60 s) x a script of 1..10 run outcomes (ok / fail, \
         duration 0..300 s of virtual time) x SIGHUPs raised at generated instants inside waiting \
         intervals x SIGTERM or SIGINT raised inside the last waiting interval, against the \
         agent's real Loop::start on a paused-time runtime. Oracle = reference timing model: first \
         run at t=0; after a success the next run comes one period after the run ended; the first \
         retry after 60 s, later retries never sooner than the previous one, strictly later while \
         below max(60 s, period), never beyond it; a success resets the back-off; no two runs \
         without delay; SIGHUP starts a run at that instant; SIGTERM/SIGINT end the loop with Ok \
         and no further run. Non-trivial = two consecutive failures followed by a success, or a \
         SIGHUP inside a waiting interval; distinct by case"
            .into()
    }
    fn cases(&self, tier: Tier) -> u32 {
        tier.pick(30_000, 2_000_000)
    }
    fn parallel(&self) -> bool {
        // signals and the run script are process-global
        false
    }
    fn fixed_cases(&self) -> Vec<Case> {
        let f = |ok: bool| RunSpec {
            ok,
            panics: false,
            duration: 5,
            sighup_at: None,
        };
        vec![
            Case {
                period: 3600,
                runs: vec![f(false), f(false), f(false), f(true), f(true)],
                end_with_sigint: false,
                end_at: 30000,
            },
            Case {
                period: 30,
                runs: vec![f(false), f(false), f(false), f(true), f(true)],
                end_with_sigint: true,
                end_at: 1000,
            },
            Case {
                period: 100,
                runs: vec![f(false), f(false), f(false), f(false), f(true)],
                end_with_sigint: false,
                end_at: 60000,
            },
        ]
    }
    fn strategy(&self, _tier: Tier) -> BoxedStrategy<Case> {
        (
            prop_oneof![
                3 => 1u32..60,
                1 => Just(60u32),
                3 => 61u32..600,
                2 => 600u32..86_400,
            ],
            prop::collection::vec(
                (
                    prop::bool::weighted(0.45),
                    prop_oneof![Just(0u16), 0u16..300],
                    prop::option::weighted(0.2, any::<u16>()),
                    prop::bool::weighted(0.25),
                )
                    .prop_map(|(ok, duration, sighup_at, panics)| RunSpec {
                        ok,
                        panics: panics && !ok,
                        duration,
                        sighup_at,
                    }),
                1..10,
            ),
            any::<bool>(),
            any::<u16>(),
        )
            .prop_map(|(period, runs, end_with_sigint, end_at)| Case {
                period,
                runs,
                end_with_sigint,
                end_at,
            })
            .boxed()
    }
    fn check(&self, case: &Case) -> Obs {
        let mut obs = Obs::default();
        judge(case, &mut obs);
        obs
    }
    fn assumptions(&self) -> Vec<String> {
        vec![
            "signals are raised only while the loop is waiting (as the property says); run bodies are scripted outcomes because the real job needs block_in_place, which paused-time (current-thread) runtimes cannot run".into(),
            "time is tokio's virtual clock; tolerance 2 ms".into(),
        ]
    }
}

pub fn property() -> Property {
    Property {
        id: "C19",
        level: "exploration",
        parts: vec![Box::new(PropPart(C19))],
    }
}
