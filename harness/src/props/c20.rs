//! C20 — credentials never appear in log output.
//!
//! Engine E (library): real `Session::ssh` / `Session::tls` connection attempts (successful and
//! failing) against loopback servers, on a current-thread runtime under a capturing tracing
//! subscriber (with the `log` bridge installed, so the SSH library's own records are captured
//! too) at generated filter directives. Engine C (agent): the unmodified agent binary at maximum
//! verbosity with its stderr captured. Oracle: the captured text contains neither the secret nor
//! its trivial encodings; a positive control (user name / key path, which are logged) must be
//! found by the same search.

use std::{
    io::Write,
    sync::{Arc, Mutex},
    time::Duration,
};

use netconf::Session;
use proptest::prelude::*;
use serde::{Deserialize, Serialize};
use tokio::net::TcpListener;

use crate::{
    core::{pick_idx, Obs, Prop, PropPart, Property, Tier},
    net::{self, PreClose},
    script::{hello_bytes, Script, Step},
    sess::{BASE10, CAP_CANDIDATE},
};

#[derive(Debug, Clone, Copy, PartialEq, Eq, Serialize, Deserialize)]
pub enum Outcome {
    Success,
    WrongPassword,
    RogueServerCertificate,
    NameMismatch,
    ConnectionRefused,
    PeerClosesInsideHello,
}

const KEYS: &[(&str, &str)] = &[
    ("client-rsa.crt", "client-rsa.pk8.key"),
    ("client-rsa.crt", "client-rsa.pkcs1.key"),
    ("client-p256.crt", "client-p256.pk8.key"),
    ("client-p256.crt", "client-p256.sec1.key"),
    ("client-ed25519.crt", "client-ed25519.pk8.key"),
];

const DIRECTIVES: &[&str] = &[
    "trace",
    "debug",
    "netconf=trace",
    "netconf=trace,russh=trace,rustls=trace",
    "netconf=debug,russh=debug",
    "info,netconf::transport=trace",
    "trace,netconf::session=off",
];

#[derive(Debug, Clone, Serialize, Deserialize)]
pub enum Secret {
    Password(String),
    /// index into KEYS
    TlsKey(u8),
}

#[derive(Debug, Clone, Serialize, Deserialize)]
pub struct Case {
    pub secret: Secret,
    pub outcome: Outcome,
    pub directive: u8,
}

/// two buffers: records whose target belongs to the repository's own crates, and records
/// emitted by dependencies (everything bridged from the `log` crate, rustls, ...)
#[derive(Clone)]
struct Capture {
    own: Arc<Mutex<Vec<u8>>>,
    deps: Arc<Mutex<Vec<u8>>>,
    to_deps: bool,
}

impl Write for Capture {
    fn write(&mut self, buf: &[u8]) -> std::io::Result<usize> {
        if self.to_deps {
            self.deps.lock().unwrap().extend_from_slice(buf);
        } else {
            self.own.lock().unwrap().extend_from_slice(buf);
        }
        Ok(buf.len())
    }
    fn flush(&mut self) -> std::io::Result<()> {
        Ok(())
    }
}

impl<'a> tracing_subscriber::fmt::MakeWriter<'a> for Capture {
    type Writer = Capture;
    fn make_writer(&'a self) -> Self::Writer {
        self.clone()
    }
    fn make_writer_for(&'a self, meta: &tracing::Metadata<'_>) -> Self::Writer {
        let t = meta.target();
        let own = t.starts_with("netconf") || t.starts_with("bgpfu") || t.starts_with("vcheck");
        Capture {
            to_deps: !own,
            ..self.clone()
        }
    }
}

fn b64(data: &[u8], url: bool, pad: bool) -> String {
    let alphabet: &[u8; 64] = if url {
        b"ABCDEFGHIJKLMNOPQRSTUVWXYZabcdefghijklmnopqrstuvwxyz0123456789-_"
    } else {
        b"ABCDEFGHIJKLMNOPQRSTUVWXYZabcdefghijklmnopqrstuvwxyz0123456789+/"
    };
    let mut out = String::new();
    for chunk in data.chunks(3) {
        let n = (chunk[0] as u32) << 16
            | (*chunk.get(1).unwrap_or(&0) as u32) << 8
            | *chunk.get(2).unwrap_or(&0) as u32;
        out.push(alphabet[(n >> 18) as usize & 63] as char);
        out.push(alphabet[(n >> 12) as usize & 63] as char);
        if chunk.len() > 1 {
            out.push(alphabet[(n >> 6) as usize & 63] as char);
        } else if pad {
            out.push('=');
        }
        if chunk.len() > 2 {
            out.push(alphabet[n as usize & 63] as char);
        } else if pad {
            out.push('=');
        }
    }
    out
}

/// all the needles that betray `secret` (clear, debug-escaped, hex, base64 in every alignment,
/// decimal and hex byte lists)
pub fn needles(secret: &[u8], windows: bool) -> Vec<(String, String)> {
    let mut v: Vec<(String, String)> = Vec::new();
    let mut add = |kind: &str, bytes: &[u8], min: usize| {
        if bytes.len() < min {
            return;
        }
        if let Ok(s) = std::str::from_utf8(bytes) {
            v.push((format!("{kind}:clear"), s.to_string()));
            let esc: String = s.escape_debug().collect();
            if esc != s {
                v.push((format!("{kind}:escape_debug"), esc));
            }
            let esc2: String = s.escape_default().collect();
            if esc2 != s {
                v.push((format!("{kind}:escape_default"), esc2));
            }
        }
        let hex: String = bytes.iter().map(|b| format!("{b:02x}")).collect();
        v.push((format!("{kind}:hex"), hex.clone()));
        v.push((format!("{kind}:HEX"), hex.to_uppercase()));
        for url in [false, true] {
            // every alignment: drop 0..2 leading bytes so that the inner groups line up
            for skip in 0..3 {
                if bytes.len() > skip + 6 {
                    let enc = b64(&bytes[skip..], url, false);
                    // cut the last (alignment dependent) group
                    let keep = enc.len().saturating_sub(4);
                    if keep >= 8 {
                        v.push((
                            format!("{kind}:base64{}+{skip}", if url { "url" } else { "" }),
                            enc[..keep].to_string(),
                        ));
                    }
                }
            }
        }
        let dec: Vec<String> = bytes.iter().map(|b| b.to_string()).collect();
        v.push((format!("{kind}:decimal-list"), dec.join(", ")));
        v.push((format!("{kind}:decimal-list-nospace"), dec.join(",")));
        let hexl: Vec<String> = bytes.iter().map(|b| format!("0x{b:02x}")).collect();
        v.push((format!("{kind}:hex-list"), hexl.join(", ")));
        let hexl2: Vec<String> = bytes.iter().map(|b| format!("{b:02x}")).collect();
        v.push((format!("{kind}:hex-list-spaced"), hexl2.join(" ")));
    };
    add("whole", secret, 1);
    if windows {
        let mut off = 0;
        while off + 16 <= secret.len() {
            add(&format!("window@{off}"), &secret[off..off + 16], 16);
            off += 8;
        }
    }
    v
}

fn strip_ansi(s: &str) -> String {
    let mut out = String::new();
    let mut chars = s.chars().peekable();
    while let Some(c) = chars.next() {
        if c == '\u{1b}' && chars.peek() == Some(&'[') {
            chars.next();
            for d in chars.by_ref() {
                if d.is_ascii_alphabetic() {
                    break;
                }
            }
        } else {
            out.push(c);
        }
    }
    out
}

fn search(text: &str, secret: &[u8], windows: bool, what: &str, obs: &mut Obs, ctx: &str) {
    let text_l = text;
    let mut all = needles(secret, false);
    if windows {
        // a private key: its secret components, whole and in 16-byte windows
        for part in private_parts(secret) {
            all.extend(needles(&part, true));
        }
    }
    for (kind, n) in all {
        if n.len() >= 6 && text_l.contains(&n) {
            let at = text_l.find(&n).unwrap_or(0);
            let from = text_l[..at].rfind('\n').map_or(0, |i| i + 1);
            let to = text_l[at..].find('\n').map_or(text_l.len(), |i| at + i);
            obs.fail(
                format!("{what}-in-log:{}", kind.split(':').nth(1).unwrap_or(&kind)),
                format!(
                    "{ctx}: the log contains the {what} ({kind}); line: {:?}",
                    &text_l[from..to.min(from + 400)]
                ),
            );
            return;
        }
    }
}

/// minimal DER walker: (tag, content) of the element at `pos`, and the position after it
fn der_elem(d: &[u8], pos: usize) -> Option<(u8, &[u8], usize)> {
    let tag = *d.get(pos)?;
    let l0 = *d.get(pos + 1)? as usize;
    let (len, hdr) = if l0 < 0x80 {
        (l0, 2)
    } else {
        let n = l0 & 0x7f;
        let mut len = 0usize;
        for i in 0..n {
            len = (len << 8) | *d.get(pos + 2 + i)? as usize;
        }
        (len, 2 + n)
    };
    let start = pos + hdr;
    let end = start.checked_add(len)?;
    Some((tag, d.get(start..end)?, end))
}

fn der_children(d: &[u8]) -> Vec<(u8, &[u8])> {
    let mut v = Vec::new();
    let mut pos = 0;
    while let Some((t, c, next)) = der_elem(d, pos) {
        v.push((t, c));
        pos = next;
    }
    v
}

/// the secret components of a private key in PKCS#8, PKCS#1 or SEC1 DER (the public components
/// that the same structure carries — RSA modulus and exponent, EC public point — are public
/// information, also present in the certificate, and are not searched for)
pub fn private_parts(der: &[u8]) -> Vec<Vec<u8>> {
    let Some((0x30, top, _)) = der_elem(der, 0) else {
        return vec![der.to_vec()];
    };
    let kids = der_children(top);
    let rsa = |k: &[(u8, &[u8])]| -> Vec<Vec<u8>> {
        // RSAPrivateKey: version, n, e, d, p, q, dp, dq, qinv
        k.iter()
            .skip(3)
            .filter(|(t, _)| *t == 0x02)
            .map(|(_, c)| c.to_vec())
            .collect()
    };
    let ec = |k: &[(u8, &[u8])]| -> Vec<Vec<u8>> {
        k.iter()
            .filter(|(t, _)| *t == 0x04)
            .take(1)
            .map(|(_, c)| c.to_vec())
            .collect()
    };
    match kids.as_slice() {
        // PKCS#8: version, AlgorithmIdentifier, OCTET STRING privateKey
        [(0x02, _), (0x30, alg), (0x04, pk), ..] => {
            let oid = der_children(alg).first().map(|(_, c)| c.to_vec()).unwrap_or_default();
            let inner = der_elem(pk, 0).map(|(t, c, _)| (t, c));
            match (oid.as_slice(), inner) {
                // rsaEncryption
                ([0x2a, 0x86, 0x48, 0x86, 0xf7, 0x0d, 0x01, 0x01, 0x01], Some((0x30, c))) => rsa(&der_children(c)),
                // id-ecPublicKey
                ([0x2a, 0x86, 0x48, 0xce, 0x3d, 0x02, 0x01], Some((0x30, c))) => ec(&der_children(c)),
                // Ed25519: OCTET STRING wrapping the seed
                ([0x2b, 0x65, 0x70], Some((0x04, seed))) => vec![seed.to_vec()],
                _ => vec![pk.to_vec()],
            }
        }
        // PKCS#1 RSAPrivateKey
        [(0x02, _), (0x02, _), (0x02, _), (0x02, _), ..] => rsa(&kids),
        // SEC1 ECPrivateKey
        [(0x02, _), (0x04, _), ..] => ec(&kids),
        _ => vec![der.to_vec()],
    }
}

fn key_der(file: &str) -> Vec<u8> {
    net::read_key(&net::pki_dir().join(file))
        .map(|k| k.secret_der().to_vec())
        .unwrap_or_default()
}

/// one library connection attempt under a capturing subscriber; returns the captured text
fn attempt(case: &Case) -> Result<(String, String, String), String> {
    static BRIDGE: std::sync::Once = std::sync::Once::new();
    BRIDGE.call_once(|| {
        let _ = tracing_log::LogTracer::init();
    });
    let buf = Arc::new(Mutex::new(Vec::new()));
    let deps = Arc::new(Mutex::new(Vec::new()));
    let directive = DIRECTIVES[case.directive as usize % DIRECTIVES.len()];
    let subscriber = tracing_subscriber::fmt()
        .with_env_filter(tracing_subscriber::EnvFilter::new(directive))
        .with_ansi(false)
        .with_writer(Capture {
            own: buf.clone(),
            deps: deps.clone(),
            to_deps: false,
        })
        .finish();
    // the server lives on its own runtime/thread so that only the client's records are captured
    let server_rt = tokio::runtime::Builder::new_multi_thread()
        .worker_threads(1)
        .enable_all()
        .build()
        .map_err(|e| e.to_string())?;
    let script = match case.outcome {
        Outcome::PeerClosesInsideHello => Script {
            steps: vec![
                Step::Write(hello_bytes(&[BASE10, CAP_CANDIDATE], 5)[..40].to_vec()),
                Step::PauseMs(10),
                Step::Close { abrupt: false },
            ],
        },
        _ => Script {
            steps: vec![
                Step::Write(hello_bytes(&[BASE10, CAP_CANDIDATE], 5)),
                Step::AwaitMessages(1),
                Step::HoldMs(200),
                Step::Close { abrupt: false },
            ],
        },
    };
    let listener = server_rt
        .block_on(async { net::bind_local() })
        .map_err(|e| e.to_string())?;
    let port = listener.local_addr().map_err(|e| e.to_string())?.port();
    let user = "verif-user-name".to_string();
    let control;
    let case2 = case.clone();
    match &case.secret {
        Secret::Password(pw) => {
            control = user.clone();
            let expected = if case.outcome == Outcome::WrongPassword {
                format!("{pw}-not")
            } else {
                pw.clone()
            };
            if case.outcome == Outcome::ConnectionRefused {
                drop(listener);
            } else {
                server_rt.spawn(net::ssh_server(
                    listener,
                    net::ssh_config(),
                    expected,
                    script,
                    PreClose::None,
                ));
            }
        }
        Secret::TlsKey(_) => {
            control = if case.outcome == Outcome::NameMismatch {
                "junos.invalid".to_string()
            } else {
                "localhost".to_string()
            };
            if case.outcome == Outcome::ConnectionRefused {
                drop(listener);
            } else {
                let (c, k) = if case.outcome == Outcome::RogueServerCertificate {
                    ("rogue.crt", "rogue.key")
                } else {
                    ("server.crt", "server.key")
                };
                let acceptor = {
                    let _g = server_rt.enter();
                    net::tls_acceptor(c, k)
                };
                server_rt.spawn(net::tls_server(listener, acceptor, script, PreClose::None));
            }
        }
    }
    let result = tracing::subscriber::with_default(subscriber, || {
        let rt = tokio::runtime::Builder::new_current_thread()
            .enable_all()
            .build()
            .map_err(|e| e.to_string())?;
        let r = rt.block_on(async move {
            let wait = Duration::from_secs(8);
            match &case2.secret {
                Secret::Password(pw) => {
                    let r = tokio::time::timeout(
                        wait,
                        Session::ssh(
                            ("127.0.0.1", port),
                            user.clone(),
                            pw.parse().map_err(|_| "password".to_string())?,
                        ),
                    )
                    .await;
                    Ok::<_, String>(match r {
                        Err(_) => "timeout".to_string(),
                        Ok(Ok(s)) => {
                            tracing::debug!(context = ?s.context(), "established");
                            "ok".into()
                        }
                        Ok(Err(e)) => {
                            tracing::error!("connection failed: {e:?} / {e}");
                            format!("err: {e}")
                        }
                    })
                }
                Secret::TlsKey(k) => {
                    let (crt, key) = KEYS[*k as usize % KEYS.len()];
                    let dir = net::pki_dir();
                    let ca = net::read_certs(&dir.join("ca.crt")).remove(0);
                    let cert = net::read_certs(&dir.join(crt)).remove(0);
                    let key = net::read_key(&dir.join(key)).ok_or("client key")?;
                    let name = if case2.outcome == Outcome::NameMismatch {
                        "junos.invalid"
                    } else {
                        "localhost"
                    };
                    let r = tokio::time::timeout(
                        wait,
                        Session::tls(("127.0.0.1", port), name, ca, cert, key),
                    )
                    .await;
                    Ok(match r {
                        Err(_) => "timeout".to_string(),
                        Ok(Ok(s)) => {
                            tracing::debug!(context = ?s.context(), "established");
                            "ok".into()
                        }
                        Ok(Err(e)) => {
                            tracing::error!("connection failed: {e:?} / {e}");
                            format!("err: {e}")
                        }
                    })
                }
            }
        });
        drop(rt);
        r
    });
    server_rt.shutdown_timeout(Duration::from_millis(200));
    let text = String::from_utf8_lossy(&buf.lock().unwrap()).to_string();
    let deps_text = String::from_utf8_lossy(&deps.lock().unwrap()).to_string();
    result.map(|r| (text, deps_text, format!("{r}|control={control}")))
}

pub struct Library;

fn password() -> impl Strategy<Value = String> {
    prop::collection::vec(
        prop_oneof![
            6 => "[A-Za-z0-9]{2,6}",
            1 => Just("\"".to_string()),
            1 => Just("'".to_string()),
            1 => Just(" ".to_string()),
            1 => Just("\\".to_string()),
            1 => Just("é".to_string()),
            1 => Just("密".to_string()),
            1 => Just("\t".to_string()),
            1 => Just("{}".to_string()),
            1 => Just("%s".to_string()),
        ],
        3..7,
    )
    .prop_map(|v| v.concat())
    .prop_filter("at least 8 characters", |s| s.chars().count() >= 8)
}

impl Prop for Library {
    type Case = Case;
    fn max_shrink_iters(&self) -> u32 {
        150
    }
    fn name(&self) -> &'static str {
        "library-logs"
    }
    fn rule(&self) -> String {
        "real Session::ssh / Session::tls connection attempts on loopback: SSH passwords of >= 8 \
         generated characters (quotes, whitespace, backslash, format-string look-alikes, non-ASCII) \
         or one of 5 TLS client keys (RSA PKCS#8 / PKCS#1, P-256 PKCS#8 / SEC1, Ed25519) x outcome \
         {success, wrong password, untrusted server certificate, name mismatch, connection refused, \
         peer closes inside the hello} x 7 filter directives up to full TRACE, captured through a \
         tracing subscriber with the log bridge. The captured text is searched for the secret in \
         clear, escape_debug / escape_default form, hex (both cases), base64 (standard and URL-safe, \
         every alignment), decimal and hex byte lists; for keys the whole DER and every secret component of it (RSA d, p, q, dP, dQ, qInv; EC scalar; Ed25519 seed) whole and in 16-byte windows at stride 8 (public components are not secrets). Non-trivial = the capture is not empty and contains the positive control \
         (user name / server name); distinct by case"
            .into()
    }
    fn cases(&self, tier: Tier) -> u32 {
        tier.pick(600, 12_000)
    }
    fn max_threads(&self) -> usize {
        4
    }
    fn strategy(&self, _tier: Tier) -> BoxedStrategy<Case> {
        (
            prop_oneof![
                password().prop_map(Secret::Password),
                (0u8..KEYS.len() as u8).prop_map(Secret::TlsKey),
            ],
            any::<u16>(),
            0u8..DIRECTIVES.len() as u8,
        )
            .prop_map(|(secret, o, directive)| {
                let outcomes: &[Outcome] = match secret {
                    Secret::Password(_) => &[
                        Outcome::Success,
                        Outcome::Success,
                        Outcome::WrongPassword,
                        Outcome::ConnectionRefused,
                        Outcome::PeerClosesInsideHello,
                    ],
                    Secret::TlsKey(_) => &[
                        Outcome::Success,
                        Outcome::Success,
                        Outcome::RogueServerCertificate,
                        Outcome::NameMismatch,
                        Outcome::ConnectionRefused,
                        Outcome::PeerClosesInsideHello,
                    ],
                };
                Case {
                    secret,
                    outcome: outcomes[pick_idx(o, outcomes.len())],
                    directive,
                }
            })
            .boxed()
    }
    fn check(&self, case: &Case) -> Obs {
        let mut obs = Obs::default();
        obs.class(format!("outcome:{:?}", case.outcome));
        obs.class(format!(
            "directive:{}",
            DIRECTIVES[case.directive as usize % DIRECTIVES.len()]
        ));
        let c = case.clone();
        let attempted = crate::core::with_watchdog(Duration::from_secs(40), move || attempt(&c))
            .unwrap_or_else(|| Err("the connection attempt never returned (client loops without yielding; see C07)".into()));
        match attempted {
            Err(e) => obs.fail("harness-sanity:attempt", e),
            Ok((text, deps_text, result)) => {
                // records emitted by dependencies are not "log text the library emits": they are
                // searched too, but only reported in the evidence
                {
                    let mut side = Obs::default();
                    match &case.secret {
                        Secret::Password(pw) => search(&deps_text, pw.as_bytes(), false, "password", &mut side, "dependency records"),
                        Secret::TlsKey(k) => {
                            let (_, file) = KEYS[*k as usize % KEYS.len()];
                            search(&deps_text, &key_der(file), true, "private-key", &mut side, "dependency records");
                        }
                    }
                    for (sig, _) in side.failures {
                        obs.class(format!("observed-in-dependency-records(not judged):{sig}"));
                    }
                }
                let control = result.rsplit("control=").next().unwrap_or("").to_string();
                let has_control = text.contains(&control);
                obs.class(if text.is_empty() {
                    "capture:empty"
                } else if has_control {
                    "capture:with-positive-control"
                } else {
                    "capture:without-positive-control"
                });
                obs.nontrivial = has_control;
                let directive = DIRECTIVES[case.directive as usize % DIRECTIVES.len()];
                // at directives that enable the session's own debug span the control must be there
                if !has_control && matches!(directive, "trace" | "debug" | "netconf=trace") {
                    obs.fail(
                        "harness-sanity:positive-control-missing",
                        format!("directive {directive}: the capture ({} bytes) does not contain {control:?}; result {result}", text.len()),
                    );
                }
                let ctx = format!("{:?} at directive {directive} ({result})", case.outcome);
                match &case.secret {
                    Secret::Password(pw) => {
                        obs.class("secret:ssh-password");
                        search(&text, pw.as_bytes(), false, "password", &mut obs, &ctx);
                    }
                    Secret::TlsKey(k) => {
                        let (_, file) = KEYS[*k as usize % KEYS.len()];
                        obs.class(format!("secret:tls-key:{file}"));
                        let der = key_der(file);
                        search(&text, &der, true, "private-key", &mut obs, &ctx);
                    }
                }
            }
        }
        obs
    }
    fn assumptions(&self) -> Vec<String> {
        vec![
            "absence of the encodings searched for, not of every conceivable transformation".into(),
            "only the client's records are captured: the loopback server runs on another thread without a subscriber".into(),
            "judged: records whose target is one of the repository's crates (netconf, bgpfu*). Records emitted by dependencies through the log bridge (e.g. russh's DEBUG dumps of outgoing packets, which contain the password as a list of byte values) are searched as well but only counted in the class histogram: they are not text the library or agent emit and cannot be repaired in this repository".into(),
        ]
    }
}

pub fn property() -> Property {
    Property {
        id: "C20",
        level: "exploration",
        parts: vec![
            Box::new(PropPart(Library)),
            Box::new(PropPart(crate::props::bin_parts::C20Agent)),
        ],
    }
}
