//! The *running* configuration as the agent sees it (the reply to its subtree-filtered
//! get-config): generated policy statements, two renderers (abstract tree for the style-driven
//! serialiser; raw text with full control over attribute order and duplication), and an
//! independent selection of the managed statements written from the property text.

use proptest::prelude::*;
use serde::{Deserialize, Serialize};

use crate::{
    core::pick_idx,
    xmlgen::{Ns, X},
    xmlstrict::{escape_attr, escape_text},
};

pub const FLTR: &str = "bgpfu-fltr:";

#[derive(Debug, Clone, PartialEq, Eq, Serialize, Deserialize)]
pub enum Comment {
    None,
    Unrelated(String),
    /// `bgpfu-fltr: <expr>` with a parseable expression
    Fltr(String),
    /// `bgpfu-fltr: <text>` where text is not a valid mp-filter expression
    Malformed(String),
}

#[derive(Debug, Clone, PartialEq, Eq, Serialize, Deserialize)]
pub enum Body {
    /// `<then><reject/></then>` only
    Reject,
    /// no `<then>` at all
    Empty,
    /// `<then><accept/></then>` / next
    OtherAction(String),
    /// a `<term>` before the default reject
    TermThenReject,
    /// default reject plus another `<then>` child (`<accept/>` as well)
    RejectAndMore,
    /// a `<from>` at statement level plus reject
    FromThenReject,
    /// default reject plus one further element: `inside_then` = next to the `<reject/>` (else at
    /// statement level), `before` = ahead of the reject / the `<then>`, `shape`: 0 `<x/>`,
    /// 1 `<x></x>`, 2 a leaf with text (`<next>policy</next>`), 3 nested
    /// (`<metric><metric>10</metric></metric>`), 4 nested with an empty child
    /// (`<community><add/><community-name>c</community-name></community>`)
    RejectPlus { inside_then: bool, before: bool, shape: u8 },
}

#[derive(Debug, Clone, PartialEq, Eq, Serialize, Deserialize)]
pub struct Stmt {
    pub name: String,
    pub comment: Comment,
    /// `jcmd:active` attribute
    pub active: Option<bool>,
    /// 0: `/* x */`, 1: `/** x **/`, 2: bare, 3: `/*x*/`, 4: `/*   x   */`
    pub decoration: u8,
    pub body: Body,
    /// extra attribute in the junos namespace (e.g. junos:group)
    pub extra_attr: Option<String>,
    /// raw renderer: order of the attributes (index of a permutation)
    pub attr_order: u16,
    /// raw renderer: emit `xmlns:jcmd` twice, as Junos does
    pub dup_xmlns: bool,
    /// raw renderer: prefix used for the jcmd namespace
    pub jcmd_prefix: String,
}

impl Stmt {
    pub fn managed(name: &str, expr: &str) -> Self {
        Self {
            name: name.into(),
            comment: Comment::Fltr(expr.into()),
            active: None,
            decoration: 0,
            body: Body::Reject,
            extra_attr: None,
            attr_order: 0,
            dup_xmlns: false,
            jcmd_prefix: "jcmd".into(),
        }
    }
    pub fn unmanaged(name: &str) -> Self {
        Self {
            comment: Comment::Unrelated("unrelated comment".into()),
            body: Body::Empty,
            ..Self::managed(name, "AS-X")
        }
    }

    pub fn comment_value(&self) -> Option<String> {
        let inner = match &self.comment {
            Comment::None => return None,
            Comment::Unrelated(t) => t.clone(),
            Comment::Fltr(e) => format!("{FLTR} {e}"),
            Comment::Malformed(t) => format!("{FLTR} {t}"),
        };
        Some(match self.decoration % 5 {
            0 => format!("/* {inner} */"),
            1 => format!("/** {inner} **/"),
            2 => inner,
            3 => format!("/*{inner}*/"),
            _ => format!("/*   {inner}   */"),
        })
    }

    /// carries the marker (whether or not the expression parses) and is active with a
    /// default-reject body: "still marked as managed" in the sense of C03
    pub fn marked(&self) -> bool {
        self.active != Some(false)
            && matches!(self.comment, Comment::Fltr(_) | Comment::Malformed(_))
            && self.body == Body::Reject
    }

    /// independent selection from the property text (C16): active, annotated with a parseable
    /// expression, consisting of a default reject
    pub fn selected(&self) -> Option<(String, String)> {
        if self.active == Some(false) {
            return None;
        }
        let Comment::Fltr(expr) = &self.comment else {
            return None;
        };
        if self.body != Body::Reject {
            return None;
        }
        Some((self.name.clone(), expr.clone()))
    }

    fn body_x(&self) -> Vec<X> {
        let then = |a: &str| X::container(Ns::Xnm, "then").kid(X::new(Ns::Xnm, a));
        let term = X::container(Ns::Xnm, "term")
            .kid(X::new(Ns::Xnm, "name").text("t1"))
            .kid(then("accept"));
        match &self.body {
            Body::Reject => vec![then("reject")],
            Body::Empty => vec![],
            Body::OtherAction(a) => vec![then(a)],
            Body::TermThenReject => vec![term, then("reject")],
            Body::RejectAndMore => vec![X::container(Ns::Xnm, "then")
                .kid(X::new(Ns::Xnm, "reject"))
                .kid(X::new(Ns::Xnm, "accept"))],
            Body::FromThenReject => vec![
                X::container(Ns::Xnm, "from").kid(X::leaf(Ns::Xnm, "family", "inet")),
                then("reject"),
            ],
            Body::RejectPlus { inside_then, before, shape } => {
                let extra = match (shape % 5, *inside_then) {
                    (0, true) => X::new(Ns::Xnm, "next-hop-self"),
                    (0, false) => X::new(Ns::Xnm, "inactive-marker"),
                    (1, true) => X::container(Ns::Xnm, "trace"),
                    (1, false) => X::container(Ns::Xnm, "to"),
                    (2, true) => X::leaf(Ns::Xnm, "next", "policy"),
                    (2, false) => X::leaf(Ns::Xnm, "description", "text"),
                    (3, true) => X::container(Ns::Xnm, "metric").kid(X::leaf(Ns::Xnm, "metric", "10")),
                    (3, false) => X::container(Ns::Xnm, "to").kid(X::leaf(Ns::Xnm, "protocol", "bgp")),
                    (_, true) => X::container(Ns::Xnm, "community")
                        .kid(X::new(Ns::Xnm, "add"))
                        .kid(X::leaf(Ns::Xnm, "community-name", "c")),
                    (_, false) => X::container(Ns::Xnm, "to")
                        .kid(X::new(Ns::Xnm, "rib"))
                        .kid(X::leaf(Ns::Xnm, "instance", "i")),
                };
                if *inside_then {
                    let t = X::container(Ns::Xnm, "then");
                    vec![if *before {
                        t.kid(extra).kid(X::new(Ns::Xnm, "reject"))
                    } else {
                        t.kid(X::new(Ns::Xnm, "reject")).kid(extra)
                    }]
                } else if *before {
                    vec![extra, then("reject")]
                } else {
                    vec![then("reject"), extra]
                }
            }
        }
    }

    pub fn to_x(&self) -> X {
        let mut ps = X::container(Ns::Xnm, "policy-statement");
        if let Some(c) = self.comment_value() {
            ps = ps.nsattr(Ns::Jcmd, "comment", &c);
        }
        if let Some(a) = self.active {
            ps = ps.nsattr(Ns::Jcmd, "active", if a { "true" } else { "false" });
        }
        if let Some(g) = &self.extra_attr {
            ps = ps.nsattr(Ns::Junos, "group", g);
        }
        ps = ps.kid(X::new(Ns::Xnm, "name").text(&self.name));
        for b in self.body_x() {
            ps = ps.kid(b);
        }
        ps
    }

    /// raw rendering with generated attribute order / duplicated xmlns:jcmd / any jcmd prefix
    fn to_raw(&self) -> String {
        self.to_raw_filtered(&StmtFilter::All)
    }

    fn to_raw_filtered(&self, filter: &StmtFilter) -> String {
        let p = &self.jcmd_prefix;
        let mut attrs: Vec<String> = Vec::new();
        let needs_ns = self.comment_value().is_some() || self.active.is_some();
        if needs_ns {
            attrs.push(format!("xmlns:{p}=\"http://yang.juniper.net/junos/jcmd\""));
        }
        if let Some(c) = self.comment_value() {
            attrs.push(format!("{p}:comment=\"{}\"", escape_attr(&c, '"')));
        }
        if let Some(a) = self.active {
            attrs.push(format!("{p}:active=\"{}\"", if a { "true" } else { "false" }));
        }
        if let Some(g) = &self.extra_attr {
            attrs.push(format!("junos:group=\"{}\"", escape_attr(g, '"')));
        }
        if needs_ns && self.dup_xmlns {
            attrs.push(format!("xmlns:{p}=\"http://yang.juniper.net/junos/jcmd\""));
        }
        // permute (Lehmer code from attr_order); namespace declarations may come after their
        // use in XML, so any order is legal
        let mut order = Vec::new();
        let mut pool: Vec<String> = attrs;
        let mut code = self.attr_order as usize;
        while !pool.is_empty() {
            let i = code % pool.len();
            code /= pool.len().max(1);
            order.push(pool.remove(i));
        }
        let mut s = String::from("<policy-statement");
        for a in &order {
            s.push(' ');
            s.push_str(a);
        }
        s.push('>');
        if filter.keeps("name") {
            s.push_str(&format!("<name>{}</name>", escape_text(&self.name)));
        }
        let style = crate::xmlgen::Style::compact();
        for b in self.body_x().into_iter().filter(|b| filter.keeps(&b.name)) {
            // body elements are in the (default) xnm namespace of the enclosing configuration
            let r = crate::xmlgen::render_elem(&b, &style);
            s.push_str(&r.replace(" xmlns=\"http://xml.juniper.net/xnm/1.1/xnm\"", ""));
        }
        s.push_str("</policy-statement>");
        s
    }
}

/// What an RFC 6241 subtree filter on the running configuration leaves of a policy-statement.
#[derive(Debug, Clone, PartialEq, Eq)]
pub enum StmtFilter {
    /// no filter, or `<policy-statement/>` as a selection node: the whole statement
    All,
    /// `<policy-statement>` with child selection nodes: only those children
    Children(Vec<String>),
    /// the filter does not select policy statements at all
    Nothing,
}

impl StmtFilter {
    pub fn keeps(&self, child: &str) -> bool {
        match self {
            StmtFilter::All => true,
            StmtFilter::Children(c) => c.iter().any(|n| n == child),
            StmtFilter::Nothing => false,
        }
    }
    /// from the `<filter>` element of a `<get-config>` (containment and selection nodes only;
    /// attribute and content match nodes are not interpreted)
    pub fn from_request(filter: Option<&crate::xmlstrict::Elem>) -> Self {
        let Some(f) = filter else { return StmtFilter::All };
        if f.attr("type").is_some_and(|t| t != "subtree") {
            return StmtFilter::All;
        }
        let Some(cfg) = f.child("configuration") else {
            return if f.elems().next().is_none() { StmtFilter::Nothing } else { StmtFilter::Nothing };
        };
        if cfg.elems().next().is_none() {
            return StmtFilter::All;
        }
        let Some(po) = cfg.child("policy-options") else { return StmtFilter::Nothing };
        if po.elems().next().is_none() {
            return StmtFilter::All;
        }
        let Some(ps) = po.child("policy-statement") else { return StmtFilter::Nothing };
        let kids: Vec<String> = ps.elems().map(|e| e.local().to_string()).collect();
        if kids.is_empty() {
            StmtFilter::All
        } else {
            StmtFilter::Children(kids)
        }
    }
}

/// `<configuration>` element holding the statements (abstract tree)
pub fn running_x(stmts: &[Stmt]) -> X {
    running_x_filtered(stmts, &StmtFilter::All)
}

pub fn running_x_filtered(stmts: &[Stmt], filter: &StmtFilter) -> X {
    let mut cfg = X::container(Ns::Xnm, "configuration")
        .nsattr(Ns::Junos, "commit-seconds", "1709120869")
        .nsattr(Ns::Junos, "commit-user", "verif");
    let mut po = X::container(Ns::Xnm, "policy-options");
    for s in stmts {
        if *filter == StmtFilter::Nothing {
            break;
        }
        let mut x = s.to_x();
        if let StmtFilter::Children(_) = filter {
            x.kids.retain(|k| match k {
                crate::xmlgen::XNode::E(e) => filter.keeps(&e.name),
                _ => true,
            });
        }
        po = po.kid(x);
    }
    // (an empty <policy-options> container is what the subtree filter leaves when no statement
    // exists)
    cfg = cfg.kid(po);
    cfg
}

/// the whole get-config reply, raw text, attribute order under the generator's control
pub fn running_reply_raw(message_id: &str, stmts: &[Stmt]) -> String {
    running_reply_raw_filtered(message_id, stmts, &StmtFilter::All)
}

pub fn running_reply_raw_filtered(message_id: &str, stmts: &[Stmt], filter: &StmtFilter) -> String {
    let mut s = format!(
        "<rpc-reply xmlns=\"urn:ietf:params:xml:ns:netconf:base:1.0\" xmlns:junos=\"http://xml.juniper.net/junos/23.1R0/junos\" message-id=\"{message_id}\">\n<data>\n<configuration xmlns=\"http://xml.juniper.net/xnm/1.1/xnm\" junos:commit-seconds=\"1709120869\">\n"
    );
    if !stmts.is_empty() && *filter != StmtFilter::Nothing {
        s.push_str("<policy-options>\n");
        for st in stmts {
            s.push_str(&st.to_raw_filtered(filter));
            s.push('\n');
        }
        s.push_str("</policy-options>\n");
    }
    s.push_str("</configuration>\n</data>\n</rpc-reply>\n]]>]]>");
    s
}

pub const NAME_POOL: &[&str] = &[
    "fltr-a", "fltr-b", "fltr-c", "FLTR-A", "fltr-a2", "AS65000:AS-CUST", "with space", "a&b",
    "x<y>z", "q\"uo'te", "naïve-ü", "日本", "]]>", "a&amp;b", "-", "fltr.d_e",
    // white space is part of a name: " lead" and "lead" are different policies, and what the
    // agent reads in the running configuration must match what it reads back as installed
    " lead", "trail ", "\n  padded\n",
];

pub fn name_strategy() -> impl Strategy<Value = String> {
    prop_oneof![
        8 => any::<u16>().prop_map(|i| NAME_POOL[pick_idx(i, NAME_POOL.len())].to_string()),
        1 => "[a-z][a-z0-9-]{0,10}",
    ]
}

pub const EXPR_POOL: &[&str] = &[
    "AS-FOO",
    "AS65000",
    "AS-BAR OR AS65000",
    "AS-BAZ AND { 10.0.0.0/8 }^+",
    "{ 192.0.2.0/24, 2001:db8::/32^48 }",
    "RS-FOO^24-32",
    "AS65000:AS-CUSTOMERS AND NOT { 0.0.0.0/0^25-32 }",
    "(AS-ONE OR AS-TWO) AND NOT AS-THREE",
    "fltr-martians",
    "AS-FOO AND <^AS65000>",
    "ANY",
];

pub const MALFORMED_POOL: &[&str] = &[
    "error!", "AS-FOO AND", "{ 10.0.0.0/8", "", "AS-", "10.0.0.0/8", "AS-FOO OR OR AS-BAR", ")(",
];

pub fn stmt_strategy() -> impl Strategy<Value = Stmt> {
    (
        name_strategy(),
        prop_oneof![
            1 => Just(Comment::None),
            1 => "[a-z ]{0,12}".prop_map(Comment::Unrelated),
            1 => Just(Comment::Unrelated("see bgpfu-fltr: AS-FOO".into())),
            6 => any::<u16>().prop_map(|i| Comment::Fltr(EXPR_POOL[pick_idx(i, EXPR_POOL.len())].to_string())),
            2 => any::<u16>().prop_map(|i| Comment::Malformed(MALFORMED_POOL[pick_idx(i, MALFORMED_POOL.len())].to_string())),
        ],
        prop_oneof![4 => Just(None), 2 => Just(Some(false)), 1 => Just(Some(true))],
        0u8..5,
        prop_oneof![
            6 => Just(Body::Reject),
            1 => Just(Body::Empty),
            1 => Just(Body::OtherAction("accept".into())),
            1 => Just(Body::OtherAction("next".into())),
            1 => Just(Body::TermThenReject),
            1 => Just(Body::RejectAndMore),
            1 => Just(Body::FromThenReject),
            3 => (any::<bool>(), any::<bool>(), 0u8..5).prop_map(|(inside_then, before, shape)| {
                Body::RejectPlus { inside_then, before, shape }
            }),
        ],
        prop::option::weighted(0.2, Just("grp".to_string())),
        any::<u16>(),
        any::<bool>(),
        prop_oneof![4 => Just("jcmd".to_string()), 1 => Just("j".to_string()), 1 => Just("junos-md".to_string())],
    )
        .prop_map(
            |(name, comment, active, decoration, body, extra_attr, attr_order, dup_xmlns, jcmd_prefix)| Stmt {
                name,
                comment,
                active,
                decoration,
                body,
                extra_attr,
                attr_order,
                dup_xmlns,
                jcmd_prefix,
            },
        )
}
