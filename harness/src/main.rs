//! vcheck — property-based checks for bgpfu/bgpfu-rs (see /verif/DESIGN.md).
#![allow(clippy::all)]


use std::path::PathBuf;

use vcheck::core::{self, replay_property, run_property, Tier};
use vcheck::props;

fn usage() -> ! {
    eprintln!("usage: vcheck <C01..C20|list> [--tier quick|thorough] [--seed N] [--part NAME] [--replay FILE]");
    std::process::exit(2);
}

fn main() {
    let args: Vec<String> = std::env::args().skip(1).collect();
    if args.is_empty() {
        usage();
    }
    let id = args[0].clone();
    let mut tier = match std::env::var("VERIF_TIER").as_deref() {
        Ok("thorough") => Tier::Thorough,
        _ => Tier::Quick,
    };
    let mut seed: u64 = std::env::var("VERIF_SEED")
        .ok()
        .and_then(|s| s.trim().parse::<i128>().ok())
        .map(|v| v as u64)
        .unwrap_or(1);
    let mut replay: Option<PathBuf> = None;
    let mut part: Option<String> = None;
    let mut i = 1;
    while i < args.len() {
        match args[i].as_str() {
            "--tier" => {
                i += 1;
                tier = match args.get(i).map(String::as_str) {
                    Some("quick") => Tier::Quick,
                    Some("thorough") => Tier::Thorough,
                    _ => usage(),
                };
            }
            "--seed" => {
                i += 1;
                seed = args
                    .get(i)
                    .and_then(|s| s.parse::<i128>().ok())
                    .map(|v| v as u64)
                    .unwrap_or_else(|| usage());
            }
            "--replay" => {
                i += 1;
                replay = Some(PathBuf::from(args.get(i).unwrap_or_else(|| usage())));
            }
            "--part" => {
                i += 1;
                part = Some(args.get(i).unwrap_or_else(|| usage()).clone());
            }
            _ => usage(),
        }
        i += 1;
    }
    // panics inside the code under test are caught per case; keep their output out of the way
    std::panic::set_hook(Box::new(|info| {
        let loc = info
            .location()
            .map(|l| format!("{}:{}", l.file(), l.line()))
            .unwrap_or_else(|| "?".into());
        let msg = info
            .payload()
            .downcast_ref::<String>()
            .cloned()
            .or_else(|| info.payload().downcast_ref::<&str>().map(|s| (*s).to_string()))
            .unwrap_or_default();
        core::LAST_PANIC.with(|p| *p.borrow_mut() = Some((loc, msg)));
    }));
    if let Ok(filter) = std::env::var("VERIF_TRACE") {
        // development aid: library log records to stderr
        let _ = tracing_log::LogTracer::init();
        let _ = tracing_subscriber::fmt()
            .with_env_filter(tracing_subscriber::EnvFilter::new(filter))
            .with_writer(std::io::stderr)
            .try_init();
    }
    if id == "gen-fuzz-seeds" {
        match vcheck::props::c14::write_fuzz_seeds(240) {
            Ok(n) => println!("wrote {n} seeds"),
            Err(e) => {
                eprintln!("{e}");
                std::process::exit(2);
            }
        }
        return;
    }
    if id == "list" {
        for p in props::all() {
            println!("{} {:?}", p.id, p.parts.iter().map(|x| x.name()).collect::<Vec<_>>());
        }
        return;
    }
    let Some(prop) = props::all().into_iter().find(|p| p.id == id) else {
        eprintln!("unknown property {id}");
        std::process::exit(2);
    };
    let code = match replay {
        Some(file) => replay_property(&prop, &file),
        None => run_property(&prop, tier, seed, part.as_deref()),
    };
    std::process::exit(code);
}
