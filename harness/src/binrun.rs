//! Engine C — the unmodified repository binaries (`bgpfu-junos-agent remote ...` over TLS on
//! loopback with the committed test PKI, and `bgpfu`) against the fake Junos / fake IRRd.

use std::{
    io::Read,
    path::PathBuf,
    process::{Command, Stdio},
    sync::{Arc, Mutex},
    time::{Duration, Instant},
};

use tokio::{
    io::{AsyncReadExt, AsyncWriteExt},
    net::TcpListener,
};

use crate::{
    fake_junos::FakeJunos,
    net,
    sess::{all_caps, hello_xml, MARKER},
};

pub fn bins_dir() -> PathBuf {
    std::env::var_os("VERIF_REPO_BINS")
        .map(PathBuf::from)
        .unwrap_or_else(|| crate::core::verif_root().join("target/repo-bins/debug"))
}

pub fn agent_bin() -> PathBuf {
    bins_dir().join("bgpfu-junos-agent")
}

pub fn bgpfu_bin() -> PathBuf {
    bins_dir().join("bgpfu")
}

/// a TLS front end for the fake Junos: serves connections until the runtime is dropped
pub struct JunosTlsServer {
    pub port: u16,
    rt: tokio::runtime::Runtime,
}

impl JunosTlsServer {
    pub fn start(fake: Arc<Mutex<FakeJunos>>) -> Result<Self, String> {
        let rt = tokio::runtime::Builder::new_multi_thread()
            .worker_threads(1)
            .enable_all()
            .build()
            .map_err(|e| e.to_string())?;
        let listener = rt
            .block_on(async { net::bind_local() })
            .map_err(|e| e.to_string())?;
        let port = listener.local_addr().map_err(|e| e.to_string())?.port();
        let acceptor = {
            let _g = rt.enter();
            net::tls_acceptor("server.crt", "server.key")
        };
        rt.spawn(async move {
            loop {
                let Ok((tcp, _)) = listener.accept().await else { break };
                let _ = tcp.set_nodelay(true);
                let acceptor = acceptor.clone();
                let fake = fake.clone();
                tokio::spawn(async move {
                    let Ok(mut s) = acceptor.accept(tcp).await else { return };
                    let session = fake.lock().unwrap().new_session();
                    let hello = hello_xml(&all_caps(), &format!("{}", 200 + session));
                    if s.write_all(hello.as_bytes()).await.is_err() {
                        return;
                    }
                    let _ = s.flush().await;
                    let mut buf: Vec<u8> = Vec::new();
                    let mut chunk = vec![0u8; 16 * 1024];
                    loop {
                        while let Some(i) = buf
                            .windows(MARKER.len())
                            .position(|w| w == MARKER.as_bytes())
                        {
                            let msg: Vec<u8> = buf.drain(..i + MARKER.len()).collect();
                            let res = fake.lock().unwrap().handle(session, &msg);
                            for r in res.replies {
                                if s.write_all(&r).await.is_err() {
                                    return;
                                }
                            }
                            let _ = s.flush().await;
                            if res.close {
                                let _ = s.shutdown().await;
                                return;
                            }
                        }
                        match s.read(&mut chunk).await {
                            Ok(0) | Err(_) => return,
                            Ok(n) => buf.extend_from_slice(&chunk[..n]),
                        }
                    }
                });
            }
        });
        Ok(Self { port, rt })
    }
}

impl Drop for JunosTlsServer {
    fn drop(&mut self) {
        // runtime shutdown happens on drop of `rt`
        let _ = &self.rt;
    }
}

#[derive(Debug, Clone)]
pub struct BinResult {
    pub exit: Option<i32>,
    pub timed_out: bool,
    pub stdout: String,
    pub stderr: String,
    pub wall: Duration,
}

/// run a command with a wall-clock limit, capturing both streams
pub fn run_command(mut cmd: Command, limit: Duration) -> Result<BinResult, String> {
    cmd.stdin(Stdio::null())
        .stdout(Stdio::piped())
        .stderr(Stdio::piped());
    let start = Instant::now();
    let mut child = cmd.spawn().map_err(|e| format!("spawn: {e}"))?;
    let mut out = child.stdout.take().ok_or("stdout")?;
    let mut err = child.stderr.take().ok_or("stderr")?;
    let t_out = std::thread::spawn(move || {
        let mut s = Vec::new();
        let _ = out.read_to_end(&mut s);
        s
    });
    let t_err = std::thread::spawn(move || {
        let mut s = Vec::new();
        let _ = err.read_to_end(&mut s);
        s
    });
    let mut timed_out = false;
    let exit = loop {
        match child.try_wait() {
            Ok(Some(st)) => break st.code(),
            Ok(None) => {
                if start.elapsed() > limit {
                    timed_out = true;
                    let _ = child.kill();
                    let _ = child.wait();
                    break None;
                }
                std::thread::sleep(Duration::from_millis(5));
            }
            Err(e) => return Err(format!("wait: {e}")),
        }
    };
    let stdout = String::from_utf8_lossy(&t_out.join().unwrap_or_default()).to_string();
    let stderr = String::from_utf8_lossy(&t_err.join().unwrap_or_default()).to_string();
    Ok(BinResult {
        exit,
        timed_out,
        stdout,
        stderr,
        wall: start.elapsed(),
    })
}

pub struct AgentOpts<'a> {
    pub netconf_port: u16,
    pub irr_port: u16,
    pub db: &'a str,
    /// number of `-v` flags
    pub verbosity: u8,
    pub rust_log: Option<&'a str>,
    pub client_cert: &'a str,
    pub client_key: &'a str,
    pub limit: Duration,
}

/// one one-shot run of the unmodified agent binary over TLS
pub fn run_agent(o: &AgentOpts<'_>) -> Result<BinResult, String> {
    let pki = net::pki_dir();
    let mut cmd = Command::new(agent_bin());
    cmd.arg("-f").arg("0");
    if o.verbosity > 0 {
        cmd.arg(format!("-{}", "v".repeat(o.verbosity as usize)));
    }
    cmd.arg("--irrd-host")
        .arg("127.0.0.1")
        .arg("--irrd-port")
        .arg(o.irr_port.to_string())
        .arg("--ephemeral-db")
        .arg(o.db)
        .arg("remote")
        .arg("--netconf-host")
        .arg("127.0.0.1")
        .arg("--netconf-port")
        .arg(o.netconf_port.to_string())
        .arg("--ca-cert-path")
        .arg(pki.join("ca.crt"))
        .arg("--client-cert-path")
        .arg(pki.join(o.client_cert))
        .arg("--client-key-path")
        .arg(pki.join(o.client_key))
        .arg("--tls-server-name")
        .arg("localhost");
    cmd.env_remove("RUST_LOG");
    if let Some(d) = o.rust_log {
        cmd.env("RUST_LOG", d);
    }
    run_command(cmd, o.limit)
}

pub fn run_bgpfu(irr_port: u16, expr: &str, limit: Duration) -> Result<BinResult, String> {
    let mut cmd = Command::new(bgpfu_bin());
    cmd.arg("-H")
        .arg("127.0.0.1")
        .arg("-P")
        .arg(irr_port.to_string())
        .arg("--")
        .arg(expr);
    cmd.env_remove("RUST_LOG");
    run_command(cmd, limit)
}
