//! vcheck — property-based checks for bgpfu/bgpfu-rs (see /verif/DESIGN.md).
#![allow(clippy::all)]
#![allow(dead_code)]

pub mod binrun;
pub mod core;
pub mod fake_junos;
pub mod fullrun;
pub mod irr;
pub mod junos_model;
pub mod mem;
pub mod net;
pub mod ops;
pub mod props;
pub mod replygen;
pub mod running;
pub mod sched;
pub mod script;
pub mod sess;
pub mod strings;
pub mod xmlgen;
pub mod xmlstrict;
