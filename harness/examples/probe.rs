use ip::traits::PrefixSet as _;
use rpsl::expr::MpFilterExpr;
use std::io::{BufRead, BufReader, Write};
fn main() {
    let l = std::net::TcpListener::bind("127.0.0.1:0").unwrap();
    let port = l.local_addr().unwrap().port();
    std::thread::spawn(move || { for s in l.incoming() { let s = s.unwrap(); let mut o = s.try_clone().unwrap(); for line in BufReader::new(s).lines() { let line = line.unwrap(); if line.starts_with("!n") { o.write_all(b"C\n").unwrap(); } else if line != "!!" { o.write_all(b"D\n").unwrap(); } } } });
    let mut ev = bgpfu::RpslEvaluator::new("127.0.0.1", port).unwrap();
    for s in std::env::args().skip(1) {
        let e: MpFilterExpr = s.parse().unwrap();
        let t = std::time::Instant::now();
        let r = ev.evaluate(e).map(|set| set.ranges().map(|r| r.to_string()).collect::<Vec<_>>());
        let el = t.elapsed();
        match r { Ok(v) => println!("{s}\n   -> {} ranges in {el:?}: {:?}", v.len(), &v[..v.len().min(6)]), Err(e) => println!("{s} -> ERR {e}") }
    }
}
