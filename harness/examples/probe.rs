use rpsl::expr::MpFilterExpr;
fn main() {
    for s in std::env::args().skip(1) {
        match s.parse::<MpFilterExpr>() { Ok(e) => println!("{s:40} OK -> {e}"), Err(e) => println!("{s:40} ERR {e}") }
    }
}
