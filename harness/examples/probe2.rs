use ip::{Any, PrefixRange, Prefix, PrefixSet};
fn main() {
    for s in ["10.0.0.0/8", "10.0.0.0/8^16-24", "10.0.0.0/8^+", "10.0.0.0/8^-", "10.0.0.0/8^24", "2001:db8::/32^48", "10.0.0.0/8,16,24", "AS65000"] {
        println!("{s:22} range={:?} prefix={:?}", s.parse::<PrefixRange<Any>>().map(|r| r.to_string()), s.parse::<Prefix<Any>>().map(|p| p.to_string()));
    }
    let set: PrefixSet<Any> = ["10.0.0.0/8^16-24".parse::<PrefixRange<Any>>().unwrap()].into_iter().collect();
    let _ = set;
}
