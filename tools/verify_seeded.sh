#!/bin/bash
# re-runs every archived seeded change against the check of its property (quick tier); prints one line each.
# /repo must be clean; it is restored after every change.
cd /verif
git -C /repo diff --quiet || { echo "/repo is dirty"; exit 2; }
fail=0
for d in seeded/*/; do
  name=$(basename $d); id=${name%%-*}
  # a change that belongs to a neighbouring property's quantifier names the check that catches it
  by=$(python3 -c "import json,sys;print(json.load(open('$d/meta.json')).get('caught_by',''))" 2>/dev/null)
  [ -n "$by" ] && id=$by
  if ! git -C /repo apply $PWD/$d/patch.diff 2>/dev/null; then echo "$name: patch does not apply"; fail=1; continue; fi
  out=$(./check $id --tier quick 2>&1); rc=$?
  git -C /repo checkout -- .
  sig=$(echo "$out" | grep -m1 '^violation in part' | sed 's/^violation in part //' | cut -c1-110)
  [ -z "$sig" ] && sig=$(echo "$out" | grep -m1 '^VIOLATION' | cut -c1-110)
  echo "$name: check=$id exit=$rc $sig"
  [ $rc -ne 1 ] && fail=1
done
exit $fail
