#!/bin/bash
# runs the repository's baseline suite with the hook feature off; exit 0 only if nothing failed
cd /repo && out=$(cargo test --workspace --no-fail-fast --offline 2>&1)
echo "$out" | grep -E '^test result' | awk '{p+=$4; f+=$6} END {print "passed",p,"failed",f; exit (f>0)}'
rc=$?
echo "$out" | grep -E '^test .*FAILED' 
exit $rc
