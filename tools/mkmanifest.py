#!/usr/bin/env python3
"""Regenerates /verif/MANIFEST.json from the table below (kept in one place so that the manifest
is always valid and in step with what the harness implements)."""
import json, os, subprocess
ROOT = os.path.dirname(os.path.dirname(os.path.abspath(__file__)))
props = [json.loads(l) for l in open(os.path.join(ROOT, "properties.jsonl"))]

# id -> (level, design_ref, technique, level text, level note)
CLAIMED = {
 "C08": ("exploration", "DESIGN.md section 3 C08",
         "property-based testing (proptest): grammar-generated rpc-reply documents against a session over an in-memory transport; oracle = document content vs. result; bounded-exhaustive enumeration of all child sequences of length <= 3",
         "Generated-input search over the reply grammar of every operation (EmptyReply, DataReply, BareReply, load-configuration results): any number/order/severity of rpc-error combined with any positive indication at every grammar position. All child sequences up to length 3 are enumerated completely, longer ones sampled (quick 3e5, thorough 1e7 documents). Establishes the property for the enumerated sub-space and gives high confidence beyond it; it is not a proof.",
         "Trusts: the harness's XML renderer (cross-checked by the harness's own strict parser), the Debug rendering of rpc::Error as the comparison medium, tokio::sync::Mutex. Reply values contain no XML metacharacters (C13's subject)."),
}

def hooks_commits():
    try:
        out = subprocess.run(["git", "-C", "/repo", "log", "--format=%h %s"], capture_output=True, text=True).stdout
        return [l.split()[0] for l in out.splitlines() if l.split(" ", 1)[1].startswith("verif hooks")]
    except Exception:
        return []

checks = []
for p in props:
    pid = p["id"]
    if pid not in CLAIMED:
        continue
    level, ref, technique, text, note = CLAIMED[pid]
    checks.append({
        "property_id": pid,
        "quick_cmd": f"./check {pid} --tier quick",
        "thorough_cmd": f"./check {pid} --tier thorough",
        "evidence_file": f"/verif/evidence/{pid}.json",
        "replay_cmd_template": f"./check {pid} --replay {{path}}",
        "engine": "vcheck",
        "level_claimed": {"category": level, "text": text, "design_ref": ref},
        "level_note": note,
        "technique": technique,
    })
manifest = {
    "version": 1,
    "setup_cmd": "cd /verif/harness && CARGO_NET_OFFLINE=true cargo build --offline && cd /repo && CARGO_NET_OFFLINE=true cargo build --offline --target-dir /verif/target/repo-bins -p bgpfu-cli -p bgpfu-junos-agent",
    "hooks": {
        "guard": "cargo feature `verif` (declared in netconf/Cargo.toml and junos-agent/Cargo.toml; off by default)",
        "enable": "the harness crate /verif/harness depends on /repo/netconf and /repo/junos-agent by path with features = [\"verif\"], so every ./check rebuilds them from the current working tree with hooks on; the repository binaries used by the end-to-end engines are built without the feature",
        "baseline_off_cmd": "cd /repo && cargo test --workspace --no-fail-fast --offline",
        "source_commits": hooks_commits(),
        "add_only": True,
    },
    "engines": [
        {"name": "vcheck", "path": "/verif/harness", "serves_properties": sorted(CLAIMED), "kind_free_text": "Rust binary: proptest-driven generators + explicit oracles (reference models, round trips, metamorphic relations, history invariants); in-memory NETCONF transport, schedule-owning executor, fake Junos, fake IRRd, loopback TLS/SSH/CLI servers, virtual time"},
    ],
    "checks": checks,
    "not_applicable": [
        {"property_id": p["id"], "reason": "check under construction (DESIGN.md section 3); not claimed yet"}
        for p in props if p["id"] not in CLAIMED
    ],
    "notes": "Exit codes of ./check: 0 held / 1 VIOLATION / 2 inconclusive. Known findings: /verif/known_findings.json. Seeded mutants: /verif/seeded/.",
}
json.dump(manifest, open(os.path.join(ROOT, "MANIFEST.json"), "w"), indent=1)
print("claimed:", sorted(CLAIMED))
