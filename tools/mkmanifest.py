#!/usr/bin/env python3
"""Regenerates /verif/MANIFEST.json from the table below (kept in one place so that the manifest
is always valid and in step with what the harness implements)."""
import json, os, subprocess
ROOT = os.path.dirname(os.path.dirname(os.path.abspath(__file__)))
props = [json.loads(l) for l in open(os.path.join(ROOT, "properties.jsonl"))]

# id -> (level, design_ref, technique, level text, level note)
PBT = "property-based testing (proptest, generated inputs with shrinking; explicit oracle)"
CLAIMED = {
 "C01": ("exploration", "DESIGN.md section 3 C01",
         PBT + ": stateful histories of agent runs against a reference Junos model; oracles = model state vs evaluated sets, read-back round trip through the agent's own reader, idempotence",
         "Generated histories (1..8 runs, 1..4 policies, names with XML metacharacters, evaluated sets from pools incl. empty families/policies) drive the agent's real session, readers, compare, payload writer and load/commit sequence over an in-memory transport against a fake Junos whose ephemeral database is a reference model. After every successful run: installed == evaluated per family, nothing unmanaged installed, the agent reads its own state back identically, a repeated run changes nothing. Sampled exploration with shrinking; high confidence, not a proof.",
         "Trusts the reference model of Junos merge semantics and get-config shapes (from the repository's fixtures); IRR evaluation replaced by a generated function in this part (the evaluator itself is C11's subject)."),
 "C02": ("exploration", "DESIGN.md section 3 C02",
         PBT + ": same histories; oracle = model invariant after every single update / every prefix / reverse order plus a first-match policy evaluator on representative routes",
         "Every update the agent emits is applied alone, as every prefix of the emitted sequence and in reverse order to the fetched state in the reference model; each touched policy must accept only inside the evaluated set (entry level and route level on boundary representatives), each accepting term is bound to one family with at least one route-filter, the policy ends in reject, and the payload contains only policy-statement paths of the opened ephemeral instance.",
         "Union of a term's ranges is an upper bound of Junos' longest-match route-filter lookup; Junos semantics modelled."),
 "C03": ("exploration", "DESIGN.md section 3 C03",
         PBT + ": same histories with failing evaluations and malformed annotations; oracle = no payload names the policy and its model state is unchanged",
         "Generated subsets of managed policies fail to evaluate or carry a malformed annotation while installed; the check asserts that no update/delete names them, that their installed state is unchanged after the run, and that every delete names an installed policy that is not marked. One known finding (malformed annotation => delete) is listed and reported as KNOWN-FINDING.",
         "As C01. The IRR-side failure modes (unknown as-set, error responses, unreachable) are exercised by the engine-B part when present."),
 "C04": ("fault_enumeration", "DESIGN.md section 3 C04",
         "fault enumeration inside property-based testing (proptest): every position of the agent's request sequence x every fault kind for N = 0..5 loads is enumerated against a recording fake Junos; policy contents are generated; oracle = invariant over the RPC names received and the run's result",
         "The agent's real Updater::run (real session over an in-memory transport, real evaluator against a fake IRRd, pipelined loads) runs against a fake Junos that injects one fault (rpc-error, truncated reply, wrong root, not XML, unknown message-id, close before / after the reply, a well-formed reply that acknowledges nothing, the normal reply with an rpc-error appended, error+warning pairs, and for loads the Junos results shapes: error with count, error then <ok/> or <ok></ok>, warning-error-warning-ok, empty results, warning without ok, plus a generated family of results shapes that are never a positive acknowledgement) at one request index; the unmodified agent binary over TLS runs the same enumeration for N = 2; positions x kinds are enumerated completely for each N, load replies are withheld until the last load was received. Invariant: commit only after a positively acknowledged open and only if every earlier load reply was positive, never after a failed step; the run reports failure iff a step failed; success only with positive commit, close-configuration and close-session; nothing reaches the live database without a commit.",
         "The fake Junos' reply shapes and open/load/commit semantics are modelled. A 15 s watchdog (all peers in-process) classifies a run that never completes."),
 "C05": ("exploration", "DESIGN.md section 3 C05",
         PBT + ": generated schedules on a harness-owned single-threaded executor (schedule = generated value; wakers honoured; quiescence = deterministic deadlock verdict); oracle = tag echo per message-id, id freshness, all resolved at quiescence",
         "The real Session over an in-memory transport is driven by an executor whose every step (poll a woken task, release the next reply in a generated permutation, inject a stray reply, let one gated send through) is chosen by a generated schedule; in a quarter of the worlds one or two sends report an I/O error, either without delivering anything or after the whole request reached the server; reply futures live in separate tasks, joined groups or sequential groups. Some sends hand their bytes over at once and return later (slow flush), one reply may be 70 KiB, and every other stray bears the id the session allocates next. Checks fresh message-ids, that each caller gets the reply tagged for its id, nobody waits forever, strays are never delivered, and a further request still works.",
         "Single OS thread: all poll-level interleavings reachable, races inside tokio::sync::Mutex itself are not. Requests are issued by one task (rpc takes &mut self)."),
 "C06": ("exploration", "DESIGN.md section 3 C06",
         PBT + ": generated chunk plans executed by scripted peers on the three REAL transports over loopback (tokio-rustls server, russh server with exact channel-data packets, child process for the local CLI); oracles = delivered payloads vs sent payloads, and promptness judged against the instant the peer itself sent further traffic",
         "Sessions over real TLS, SSH and local-CLI transports; the peer writes the hello and the concatenated replies of 1..4 pipelined requests per round in units cut at generated positions, with forced cuts at every offset inside ]]>]]>, several messages per unit, delimiter look-alikes in payloads, 0..20000 padding bytes and message ends aligned to power-of-two offsets of the byte stream (where receive buffers run full). The evidence counts the sessions in which the client's own reads (from its TRACE records) really ended inside a delimiter. Every caller must get exactly its payload, before the peer had to send further traffic (the peer nudges only after 1.5 s without client progress and records it). All five in-delimiter offsets on every transport are fixed cases. Failures must reproduce on an immediate second run.",
         "TLS and pipe read boundaries can only be encouraged, not forced (SSH packets are exact). Real time is involved; a timeout alone is never a verdict, the peer's own nudge mark is."),
 "C07": ("fault_enumeration", "DESIGN.md section 3 C07",
         "fault enumeration inside property-based testing (proptest): transport x close point x manner x outstanding requests enumerated completely on the three real transports over loopback, cut positions generated; oracle = every operation completes within the bound, CPU accounting separates waiting from spinning",
         "Scripted peers (tokio-rustls server, russh server, child process) close the connection at every point of a session's life (after accept, during the handshake, before / inside the hello, idle, after the requests, inside a reply, after the first of several replies), cleanly (close_notify+FIN / channel EOF+close / child exit), with end of stream only (close_notify with TCP left open / channel EOF without close / child closes stdout and lives on) or abruptly, with 0/1/3 requests outstanding; the unmodified agent binary must exit non-zero when the server closes at each request position. Establishment, every pending reply and one subsequent request must complete with an error (or the value actually sent) within 10 s and the process must not burn CPU. The client runs on a watched thread so that a loop that never yields is itself observed. The three confirmed defects (TLS / local EOF busy loop, SSH pump spin) were repaired; their cases are regression inputs.",
         "Wall clock: the bound is the property's own observable (10^4 margin on loopback); a miss must reproduce on an immediate re-run. CPU time is process-wide, cases run sequentially."),
 "C08": ("exploration", "DESIGN.md section 3 C08",
         PBT + ": grammar-generated rpc-reply documents for every operation over an in-memory session; bounded-exhaustive enumeration of all child sequences of length <= 3; oracle = document content vs result",
         "Generated-input search over the reply grammar of every operation (EmptyReply, DataReply, BareReply, load-configuration results): any number/order/severity of rpc-error combined with any positive indication at every grammar position. All child sequences up to length 3 are enumerated completely (those mixing an error and an ok also with <ok></ok>), longer ones sampled; half of the sampled documents are rendered in a generated serialisation style (prefix, whitespace, comments, quotes, XML declaration, both empty-element forms). Success without any positive indication is a failure as well. Establishes the property for the enumerated sub-space and gives high confidence beyond it; not a proof.",
         "Trusts the harness's XML renderer (cross-checked by its own strict parser) and the Debug rendering of rpc::Error as comparison medium. Values contain no XML metacharacters (C13's subject)."),
 "C09": ("exploration", "DESIGN.md section 3 C09",
         PBT + ": (capability set, request) pairs; oracle = table transcribed from RFC 6241 section 8 / ietf-netconf.yang if-feature statements, evaluated on the bytes on the wire and on the caller's request",
         "Every operation with every combination of its builder calls against minimal / minimal-minus-one / superset / random capability sets (advertised in generated order, with look-alike URIs of standard capabilities and URL schemes listed in any order) (10 capabilities x 2^5 URL schemes x base:1.1). Wire direction: whatever reached the transport requires only advertised capabilities. Converse: a request within the advertised capabilities is sent as exactly one message.",
         "The RFC table is transcribed by hand. Default-valued explicit parameters are accepted either way; semantically invalid requests are judged in the wire direction only."),
 "C10": ("exploration", "DESIGN.md section 3 C10",
         PBT + ": adversarial parameter values for every operation; oracle = the harness's own strict XML 1.0 parser + value recovery at the protocol-defined location + delimiter count",
         "Every text parameter of every operation (tokens, log messages, instance names, XPath, URLs, text/JSON/set configuration) is generated from XML metacharacters, quotes, the delimiter and its prefixes, CDATA/comment openers, entity look-alikes, non-ASCII, empty, up to 4 KiB; fragments are generated well-formed trees. The captured bytes must be one well-formed document plus exactly one delimiter and every value must be recovered unchanged. Every request the fake Junos receives in other checks is parsed by the same strict parser, and every document that parser judged in a run is re-parsed by expat (tools/expat_check.py; a disagreement makes the run inconclusive); the part oracle-self-check feeds it damaged documents for that purpose only.",
         "Well-formed, not namespace-valid. Values are XML Chars without CR (attribute values also without TAB/LF)."),
 "C11": ("exploration", "DESIGN.md section 3 C11",
         PBT + ": generated IRR databases served by a fake IRRd over loopback TCP and generated filter expressions; oracle = denotational RPSL evaluator written for the harness, compared exactly by one representative prefix per class of the partition induced by all prefixes and lengths involved",
         "The real RpslEvaluator (public API) evaluates generated expressions (AND/OR/NOT, literals, every range operator on every atom kind, as-sets with nesting/cycles/unknown members, route-sets, filter-sets) against a generated database served with protocol variants (empty as C or D, segmented responses). The result is compared for exact set equality with an independent evaluator (library), with what the unmodified bgpfu command prints, and with what the real agent installs when one to three policies (incl. an unknown as-set) are evaluated in one run; the query log must show both address families for every expanded AS. One known finding (route-set members with range operators dropped) is attributed exactly by re-running the oracle without those members.",
         "IRR behaviour inside the IRRd protocol. NOT is generated over literal sets of short prefixes only (the prefix-set dependency needs time exponential in the prefix length for a complement). The rpsl and generic-ip crates are dependencies, their parser is used to hand expressions to the library."),
 "C12": ("exploration", "DESIGN.md section 3 C12",
         PBT + ": generated server hellos x both orders of the hello exchange; oracle = the establishment predicate evaluated against the capabilities the client itself put on the wire",
         "Hello matrix over base versions, capability subsets, unknown URIs, session-id forms (valid, 2^32-1, leading zeros, 0, 2^32, negative, empty, non-numeric, missing, duplicated), capabilities element once/missing/twice, child order, prefix/default namespace, malformed documents (truncated, wrong root, wrong namespace, not XML, unclosed tag, content before the root or after it: element / text / end tag / second hello / rpc-reply), and both orders of the exchange (send gate). Established iff the property's predicate; version, session-id and capability set compared. One known finding listed.",
         "Part framing: real TLS transport against a conforming RFC 6242 server that switches to chunked framing iff both hellos carry :base:1.1."),
 "C13": ("exploration", "DESIGN.md section 3 C13",
         PBT + ": metamorphic - one abstract message tree rendered in two generated styles must give the same outcome; failures are attributed to single rewrites and single elements by re-rendering the canonical style with exactly one rewrite",
         "Hello, every rpc-reply type and the Junos configuration grammars, each rendered in two styles composed of: prefix vs default namespace, inter-element whitespace, whitespace around token text, comments inside and around the root, attribute order, quote character, XML declaration, both empty-element forms, whitespace before the delimiter. Outcome = Ok(Debug of value) / RpcError(list) / error class. Known findings (container elements written as empty-element tags) are listed with signature reader:rewrite:element.",
         "Comments only between elements; whitespace only around token-valued text; errors compared as a class."),
 "C14": ("exploration", "DESIGN.md section 3 C14",
         PBT + " and coverage-guided fuzzing (cargo-fuzz/libFuzzer targets over the same entry function): mutated valid messages and raw bytes; oracle = call returns, no panic/overflow, no unresolved future, other request's reply still delivered",
         "Valid hellos/replies (and, for the agent's readers, Junos configurations) from the grammars damaged by generated mutation sequences (truncate, delete, flip, insert markup, duplicate element, absurd numbers, invalid UTF-8, 11000-deep nesting, splice, wrong namespace, missing/doubled delimiter, structure-preserving edits of one text node or attribute value, re-addressing to the other request's message-id) or replaced by raw bytes, fed through a real session with a second outstanding request whose valid reply arrives afterwards or had arrived (and been parked) before. Part libfuzzer: three cargo-fuzz targets over the same entry functions; the quick tier replays the committed seed corpus in-process, the thorough tier runs a campaign per target on all cores (VERIF_FUZZ_SECONDS each, default 300) and re-verifies every artifact in-process. Builds keep debug assertions and overflow checks.",
         "Bytes are handed over as one framed message (framing is C06). A call that does not return within 60 s is reported as a violation with the input as replay (per-case watchdog; libFuzzer -timeout artifacts are re-run under it). libFuzzer campaigns are only approximately reproducible from -seed; the saved input is the reproducible unit."),
 "C15": ("exploration", "DESIGN.md section 3 C15",
         PBT + ": generated sets of managed policies containing unevaluable members, run through the agent's real Updater::run with the real evaluator; oracle = run succeeds, commit received, every evaluable policy installed with exactly its RPSL set",
         "2..9 policies (some evaluable only through a filter-set; in half of the cases all already installed) with at least one valid-but-unevaluable expression (filter-set chain ending in an unknown as-set, unknown as-set, IRR E/F, unknown route-/filter-set, PeerAS, AS-path regexp, attribute match, set AND regexp) at generated positions; every unevaluable kind alone at every position is enumerated first. The confirmed defects (PeerAS unimplemented!(), dependency todo!() unwinding the task that evaluates all policies) were repaired and are regression inputs.",
         "Nothing is asserted about the unevaluable policy itself (C03). Unknown route-/filter-sets evaluate to the empty set by the library's documented design."),
 "C16": ("exploration", "DESIGN.md section 3 C16",
         PBT + ": generated running configurations rendered raw (attribute order, duplicated xmlns:jcmd, jcmd prefix, comment decoration, body shape under generator control); oracle = independent selection written from the property text, expressions compared by AST",
         "0..8 generated policy statements per configuration through the agent's real session and candidate reader, served by a fake router that honours the request's subtree filter; the selected (name, expression) pairs must equal an independent selection (active, annotated with a parseable expression, body exactly a default reject - other bodies include terms, other actions, a from clause and a further element of five shapes inside <then> or at statement level, before or after the reject); duplicate selected names must be rejected.",
         "'Inactive' = jcmd:active=\"false\"; decorations are the /* */ family; expressions compared through the rpsl parser (a dependency, not code under test)."),
 "C17": ("exploration", "DESIGN.md section 3 C17",
         PBT + ": metamorphic - a generated sequence of expressions on one evaluator vs each expression on a fresh evaluator, against a fake IRRd with injected D/E/F answers",
         "Sequences of 2..7 (one in seven: 20..44, biased to filter-set references) expressions evaluated on one RpslEvaluator/connection against a database in which generated keys always answer with an error, further errors are injected for one query of one member of the sequence (the fake IRRd's epoch is advanced before each member and is the same for the fresh evaluator), and filter-sets are served from two sources (early stop of the resolver); each result must equal the result on a fresh connection (both fail, or equal range sets), so responses are never attributed to the wrong query and the evaluator stays usable after failures.",
         "Results are functions of (database, epoch, expression): error answers are keyed by query and by member of the sequence, never by position on the connection."),
 "C18": ("exploration", "DESIGN.md section 3 C18",
         PBT + ": C05's schedule-owning executor plus drop actions at generated suspension points; oracle = survivors resolve with their own tag at quiescence and a further request completes",
         "C05's worlds with 1..2 drops of a waiter task (never polled / polled / polled while a send is pending and the request map is locked). Every surviving request must still resolve with its own reply and the session must stay usable. The confirmed defect (reply lost when the reader is dropped at the request-map lock) was repaired; its minimal schedule is a regression input. Part real-transports: on TLS, SSH and the local CLI the future that is reading from the transport is dropped between two parts of a reply (timer-chosen, position measured from the peer's time marks); the other requests and a further one must complete with their own replies.",
         "As C05. In the real-transport part the moment of the drop is chosen by a timer; a failure must reproduce on an immediate re-run."),
 "C19": ("exploration", "DESIGN.md section 3 C19",
         PBT + ": generated histories (period, run outcomes and durations, SIGHUP / SIGTERM / SIGINT instants) against the agent's real daemon loop on a paused-time (virtual clock) tokio runtime with real Unix signals; oracle = reference timing model over the time line of run starts",
         "The real Loop::start runs under tokio's virtual time; each run is a scripted outcome installed through a hook, signals are raised with libc::raise inside waiting intervals. The observed time line of run starts and the loop's exit are compared with a reference model: first run immediately, period after a success, 60 s after the first failure, non-decreasing and strictly growing retry delays up to max(60 s, period), reset by success, SIGHUP runs at once, SIGTERM/SIGINT exit cleanly. The confirmed defect (period < 60 s shrinks the delay) was repaired.",
         "Run bodies are scripted (the real job needs block_in_place, impossible on a paused current-thread runtime); signals only while waiting; virtual time tolerance 2 ms."),
 "C20": ("exploration", "DESIGN.md section 3 C20",
         PBT + ": generated secrets, outcomes and filter directives on real loopback connection attempts under a capturing tracing subscriber (log bridge installed), plus the unmodified agent binary's stderr at generated verbosity; oracle = substring search for the secret and its trivial encodings with a positive control",
         "SSH passwords (generated, >= 8 chars with quotes / whitespace / non-ASCII / format look-alikes) and five TLS client keys are handed to real Session::ssh / Session::tls attempts (success, wrong password, untrusted certificate, name mismatch, refused, peer closes in the hello) at seven filter directives up to TRACE, and to the agent binary at -v..-vvvv / RUST_LOG with eight layouts of the certificate / key files (apart, key+certificate, certificate+key bundle, line breaks as spaces, CR line ends, missing END line, leading text). The captured text must not contain the secret in clear, escape_debug/escape_default, hex, base64 (any alignment), decimal or hex byte lists; for keys the whole DER, the PEM lines and every secret component (RSA d,p,q,dP,dQ,qInv; EC scalar; Ed25519 seed) whole and in 16-byte windows. The user name / key path must be found by the same search (positive control).",
         "Only records whose target is one of the repository's crates are judged; dependency records (e.g. russh DEBUG packet dumps, which do contain the password as a byte list) are counted in the evidence but are not text this code base emits. Absence of the searched encodings, not of every transformation."),
}

def hooks_commits():
    try:
        out = subprocess.run(["git", "-C", "/repo", "log", "--format=%h %s"], capture_output=True, text=True).stdout
        return [l.split()[0] for l in out.splitlines() if l.split(" ", 1)[1].startswith("verif hooks")]
    except Exception:
        return []

checks = []
for p in props:
    pid = p["id"]
    if pid not in CLAIMED:
        continue
    level, ref, technique, text, note = CLAIMED[pid]
    checks.append({
        "property_id": pid,
        "quick_cmd": f"./check {pid} --tier quick",
        "thorough_cmd": f"./check {pid} --tier thorough",
        "evidence_file": f"/verif/evidence/{pid}.json",
        "replay_cmd_template": f"./check {pid} --replay {{path}}",
        "engine": "vcheck",
        "level_claimed": {"category": level, "text": text, "design_ref": ref},
        "level_note": note,
        "technique": technique,
    })
manifest = {
    "version": 1,
    "setup_cmd": "cd /verif/harness && CARGO_NET_OFFLINE=true cargo build --offline && cd /repo && CARGO_NET_OFFLINE=true cargo build --offline --target-dir /verif/target/repo-bins -p bgpfu-cli -p bgpfu-junos-agent",
    "hooks": {
        "guard": "cargo feature `verif` (declared in netconf/Cargo.toml and junos-agent/Cargo.toml; off by default)",
        "enable": "the harness crate /verif/harness depends on /repo/netconf and /repo/junos-agent by path with features = [\"verif\"], so every ./check rebuilds them from the current working tree with hooks on; the repository binaries used by the end-to-end engines are built without the feature",
        "baseline_off_cmd": "cd /repo && cargo test --workspace --no-fail-fast --offline",
        "source_commits": hooks_commits(),
        "add_only": True,
    },
    "engines": [
        {"name": "vcheck", "path": "/verif/harness", "serves_properties": sorted(CLAIMED), "kind_free_text": "Rust binary: proptest-driven generators + explicit oracles (reference models, round trips, metamorphic relations, history invariants); in-memory NETCONF transport, schedule-owning executor, fake Junos, fake IRRd, loopback TLS/SSH/CLI servers, virtual time"},
    ],
    "checks": checks,
    "not_applicable": [
        {"property_id": p["id"], "reason": "check under construction (DESIGN.md section 3); not claimed yet"}
        for p in props if p["id"] not in CLAIMED
    ],
    "notes": "Exit codes of ./check: 0 held / 1 VIOLATION / 2 inconclusive. Known findings: /verif/known_findings.json. Seeded mutants: /verif/seeded/.",
}
json.dump(manifest, open(os.path.join(ROOT, "MANIFEST.json"), "w"), indent=1)
print("claimed:", sorted(CLAIMED))
