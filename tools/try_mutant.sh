#!/bin/bash
# usage: try_mutant.sh <ID> <patch.diff> [extra check args]   -- applies the seeded change to /repo, runs the check, reverts
ID=$1; PATCH=$2; shift 2
cd /repo || exit 2
git diff --quiet || { echo "/repo is dirty"; exit 2; }
git apply "$PATCH" || { echo "patch does not apply"; exit 2; }
cd /verif && ./check $ID "$@" 2>&1 | grep -v '^proptest: Abort\|^KNOWN-FINDING' | cut -c1-900 | tail -6
rc=${PIPESTATUS[0]}
cd /repo && git checkout -- . && git status --short | grep -v '^??' | head -3
echo "check exit=$rc"
