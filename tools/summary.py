#!/usr/bin/env python3
"""summary.py: markdown table of what the evidence files of the last runs say (one row per part)"""
import json, glob
print("| id | tier | part | evaluations | distinct non-trivial | exhaustive | wall s |")
print("|---|---|---|---|---|---|---|")
for f in sorted(glob.glob('/verif/evidence/C*.json')):
    e = json.load(open(f))
    for p in e['coverage']['parts']:
        print(f"| {e['property_id']} | {e['tier']} | {p['part']} | {p['evaluations']} | {p['distinct_nontrivial']} | {'yes' if p['exhaustive'] else 'no'} | {p['wall_s']:.1f} |")
