#!/usr/bin/env python3
"""archive_mutant.py <ID> <worktree> <caught-by text> <needs text> : store a confirmed seeded change under /verif/seeded/<ID>[-n]/"""
import sys, os, shutil, json, glob, subprocess
pid, wt, caught, needs = sys.argv[1:5]
base = f"/verif/seeded/{pid}"
d = base; n = 1
while os.path.exists(d):
    n += 1; d = f"{base}-{n}"
os.makedirs(d)
for f in glob.glob(os.path.join(wt, "OUT", "*")):
    if f.endswith(".log"): continue
    if os.path.isdir(f): shutil.copytree(f, os.path.join(d, os.path.basename(f)))
    else: shutil.copy(f, d)
meta = {
  "property": pid,
  "breaks": pid,
  "needs_to_manifest": needs,
  "confirmed": "in the scratch worktree: with patch.diff the workspace builds and `cargo test --workspace --offline` passes (58 passed, 0 failed) and the demonstration fails; with the patch reverted the demonstration passes (tools/confirm_mutant.sh)",
  "check_result": caught,
  "ran": f"tools/try_mutant.sh {pid} seeded/{os.path.basename(d)}/patch.diff  (git -C /repo apply; ./check {pid}; git -C /repo checkout -- .)",
  "repo_commit": subprocess.run(["git","-C","/repo","rev-parse","--short","HEAD"],capture_output=True,text=True).stdout.strip(),
}
json.dump(meta, open(os.path.join(d, "meta.json"), "w"), indent=1)
print("archived", d)
