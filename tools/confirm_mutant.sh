#!/bin/bash
# usage: confirm_mutant.sh <dir-of-worktree> <demo-apply-cmd> <demo-run-cmd>
# confirms: with patch -> workspace tests pass, demo fails; without patch -> demo passes
W=$1; APPLY=$2; RUN=$3
cd $W || exit 2
git checkout -q -- . ; git clean -qfd -e OUT -e target
git apply OUT/patch.diff || { echo "CONFIRM: patch does not apply"; exit 1; }
t=$(cargo test --workspace --offline 2>&1 | grep -E '^test result' | awk '{p+=$4; f+=$6} END {print p" passed "f" failed"}')
echo "with patch: existing suite: $t"
eval "$APPLY" || { echo "CONFIRM: demo does not apply"; }
( eval "$RUN" ) > OUT/demo_with.log 2>&1; rc_with=$?
echo "with patch: demo exit=$rc_with ($(grep -E '^test result|FAILED|panicked' OUT/demo_with.log | head -3 | tr '\n' ' '))"
git apply -R OUT/patch.diff || echo "CONFIRM: cannot revert patch"
( eval "$RUN" ) > OUT/demo_without.log 2>&1; rc_without=$?
echo "without patch: demo exit=$rc_without ($(grep -E '^test result' OUT/demo_without.log | head -3 | tr '\n' ' '))"
git checkout -q -- . ; git clean -qfd -e OUT -e target
if [ $rc_with -ne 0 ] && [ $rc_without -eq 0 ] && echo "$t" | grep -q ' 0 failed'; then echo "CONFIRMED"; else echo "NOT CONFIRMED"; fi
