#!/usr/bin/env python3
"""expat_check.py <file.jsonl>: each line {"d": document, "wf": verdict of the harness's strict XML parser}.
Parses every document with expat (not namespace-aware: plain XML 1.0 well-formedness, which is what the
strict parser decides) and prints a JSON summary of agreements / disagreements. DOCTYPE declarations are
reported as not well-formed for the purpose of the comparison (the strict parser refuses them by design:
NETCONF forbids them, RFC 6241 section 3)."""
import json, sys
import xml.parsers.expat as expat

import re
DECL = re.compile(r'^<\?xml[ \t\r\n]+version[ \t\r\n]*=[ \t\r\n]*(?:"([^"]*)"|\'([^\']*)\')')

def wellformed(doc: str):
    """expat's verdict, with the two places where expat is known to deviate from XML 1.0 (5th edition)
    brought back to the specification:
    * VersionNum ::= '1.' [0-9]+  -- expat accepts any [A-Za-z0-9_.:-]+ ("1", "0.0", ".0")
    * name characters: expat implements the 4th-edition tables; a non-ASCII character it refuses inside
      a name while the strict parser (5th-edition ranges) accepts it is reported as 'edition' (neither
      agreement nor disagreement: the code under test only ever writes ASCII names)."""
    m = DECL.match(doc)
    if m:
        v = m.group(1) if m.group(1) is not None else m.group(2)
        if not re.fullmatch(r'1\.[0-9]+', v):
            return False, "version number not 1.x"
    p = expat.ParserCreate(encoding="utf-8")
    seen = {"doctype": False}
    def doctype(*a):
        seen["doctype"] = True
    p.StartDoctypeDeclHandler = doctype
    try:
        p.Parse(doc.encode("utf-8", "surrogatepass"), True)
    except expat.ExpatError as e:
        if e.code == expat.errors.codes[expat.errors.XML_ERROR_INVALID_TOKEN]:
            b = doc.encode("utf-8", "surrogatepass")
            if p.ErrorByteIndex < len(b) and b[p.ErrorByteIndex] >= 0x80:
                return None, "non-ASCII character refused by expat (4th-edition name tables?)"
        return False, str(e)
    except Exception as e:  # encoding trouble etc.
        return False, repr(e)
    if seen["doctype"]:
        return False, "doctype"
    return True, ""

def main():
    n = agree = wf = edition = 0
    dis = []
    for line in open(sys.argv[1], encoding="utf-8"):
        if not line.strip():
            continue
        o = json.loads(line)
        n += 1
        ok, why = wellformed(o["d"])
        if ok is None:
            if o["wf"]:
                edition += 1
                continue
            ok = False
        if ok:
            wf += 1
        if ok == o["wf"]:
            agree += 1
        elif len(dis) < 5:
            dis.append({"document": o["d"][:400], "strict": o["wf"], "expat": ok, "expat_error": why})
    print(json.dumps({
        "documents": n, "agreed": agree, "disagreements": n - agree - edition,
        "name_character_edition_divergences_not_compared": edition,
        "well_formed_by_expat": wf, "ill_formed_by_expat": n - wf - edition,
        "first_disagreement": dis[0] if dis else None, "sample_disagreements": dis,
        "expat": expat.EXPAT_VERSION,
    }))

if __name__ == "__main__":
    main()
