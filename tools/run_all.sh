#!/bin/bash
# runs the quick tier of every claimed check; prints one line per property
cd /verif
tier="${1:-quick}"
for p in $(python3 -c "import json;print(' '.join(c['property_id'] for c in json.load(open('MANIFEST.json'))['checks']))"); do
  start=$(date +%s.%N)
  out=$(./check $p --tier $tier 2>&1); rc=$?
  end=$(date +%s.%N)
  v=$(echo "$out" | grep -c '^VIOLATION')
  k=$(echo "$out" | grep -c '^KNOWN-FINDING')
  printf "%s exit=%d violations=%d known=%d wall=%.1fs\n" $p $rc $v $k $(echo "$end - $start" | bc)
  [ $rc -ne 0 ] && echo "$out" | grep -v '^KNOWN-FINDING\|^proptest: Abort' | cut -c1-600
done
