#!/bin/bash
# Generates the test PKI committed under /verif/pki (run once; no check depends on openssl at run time).
set -e
cd "$(dirname "$0")"
D=36500
openssl req -x509 -newkey rsa:2048 -nodes -keyout ca.key -out ca.crt -days $D -subj "/CN=verif test CA" \
  -addext "basicConstraints=critical,CA:TRUE" -addext "keyUsage=critical,keyCertSign,cRLSign" 2>/dev/null
cat > server.ext <<X
basicConstraints=CA:FALSE
keyUsage=digitalSignature,keyEncipherment
extendedKeyUsage=serverAuth
subjectAltName=DNS:localhost,DNS:junos.test,IP:127.0.0.1
X
cat > client.ext <<X
basicConstraints=CA:FALSE
keyUsage=digitalSignature,keyEncipherment
extendedKeyUsage=clientAuth
X
openssl req -newkey rsa:2048 -nodes -keyout server.key -out server.csr -subj "/CN=localhost" 2>/dev/null
openssl x509 -req -in server.csr -CA ca.crt -CAkey ca.key -CAcreateserial -out server.crt -days $D -extfile server.ext 2>/dev/null
# a second CA + server cert nobody trusts (rejected-certificate outcome)
openssl req -x509 -newkey rsa:2048 -nodes -keyout otherca.key -out otherca.crt -days $D -subj "/CN=other CA" \
  -addext "basicConstraints=critical,CA:TRUE" 2>/dev/null
openssl req -newkey rsa:2048 -nodes -keyout rogue.key -out rogue.csr -subj "/CN=localhost" 2>/dev/null
openssl x509 -req -in rogue.csr -CA otherca.crt -CAkey otherca.key -CAcreateserial -out rogue.crt -days $D -extfile server.ext 2>/dev/null
mk_client() { # name, genpkey args...
  name=$1; shift
  openssl genpkey "$@" -out client-$name.pk8.key 2>/dev/null
  openssl req -new -key client-$name.pk8.key -out client-$name.csr -subj "/CN=client-$name" 2>/dev/null
  openssl x509 -req -in client-$name.csr -CA ca.crt -CAkey ca.key -CAcreateserial -out client-$name.crt -days $D -extfile client.ext 2>/dev/null
}
mk_client rsa -algorithm RSA -pkeyopt rsa_keygen_bits:2048
mk_client p256 -algorithm EC -pkeyopt ec_paramgen_curve:P-256
mk_client ed25519 -algorithm ED25519
# traditional encodings of the same keys
openssl rsa -in client-rsa.pk8.key -traditional -out client-rsa.pkcs1.key 2>/dev/null
openssl ec -in client-p256.pk8.key -out client-p256.sec1.key 2>/dev/null
# PKCS#8 for the server key (rustls-pemfile reads any)
rm -f *.csr *.srl *.ext
ls
